(* Model of the value-provision layer of src/index/updater.rs index_utxo_entries:
   where the value (and the stored per-output data) of every transaction input
   comes from, under each configuration of the optional indexes.

     - sat index on        an output's UTXO entry holds its sat ranges; its value is
                           the sum of the range lengths (utxo_entry.rs total_value)
     - sat index off       the entry holds the value (push_value)
     - no full UTXO index  (Index::have_full_utxo_index = first_index_height == 0 is
                           false: neither --index-sats nor --index-addresses and the
                           chain's first inscription height is > 0): blocks below
                           first_index_height are fetched without transactions, their
                           outputs are not tracked; when such an output is spent its
                           value comes from the node:
         pre-pass          for every transaction of the block (coinbase included), every
                           input in order: skip the null outpoint, skip a prevout whose
                           txid is a txid of this block, skip outpoints in the cache,
                           skip outpoints in the table; send the rest to the fetcher
         processing loop   non-coinbase transactions in block order, then the coinbase
                           (which looks nothing up); per input in order:
                           cache.remove, else table.remove, else
                           assert!(!have_full_utxo_index) and txout_receiver.blocking_recv()
                           -> an entry with that value and nothing else
         next block        assert!(queue empty) "Previous block did not consume all inputs"
                           (only when inscriptions are indexed at that height)

   The fetcher thread answers requests in the order they were sent (fetcher.rs /
   spawn_fetcher "Send all tx outputs back in order"): the queue is modelled as the
   list of (requested outpoint, node value of it); the requested outpoint is kept only
   to state that a received value belongs to the outpoint being looked up.
   A blocking_recv on an empty queue never returns: failure Stuck.

   The abstract chain: a transaction is (txid, input outpoints, output values); the
   first transaction of a block is its coinbase, whose only input is the null outpoint.
   The downstream updaters (inscriptions, runes: other contributors' models) are an
   arbitrary state machine d_step that sees, per transaction, the (value, stored data)
   of every input and returns the data to store with every output; it runs from the
   first inscription height on.  cache/table are total maps outpoint -> option entry;
   Updater::commit (flush of the cache into the table) may happen after any block.

   Wire (run_C15), all integers >= 0:
     case := scen n_old {id vout value} n_blocks { n_tx { id flags n_in {id vout} n_out {value} } }
     scen 1: the n_old outputs were created below the first inscription height (1 here), the
             generated blocks have heights 1, 2, ...; scen 0: first inscription height 0.
     obs  := per block: n_req {id vout}, then per non-coinbase tx: n_in {value}
             for the configuration without optional indexes; `-2` on any failure. *)
From OrdV Require Import Base.Prelude Base.Wire.

Definition outpoint := (N * N)%type.
Definition NULL_VOUT : N := 4294967295.
Definition is_null (o : outpoint) : bool := andb (N.eqb (fst o) 0) (N.eqb (snd o) NULL_VOUT).
Definition op_eqb (a b : outpoint) : bool := andb (N.eqb (fst a) (fst b)) (N.eqb (snd a) (snd b)).

Record tx := mkTx { txid : N; ins : list outpoint; outs : list N }.
Definition block := list tx.

Inductive repr := RValue (v : N) | RRanges (rs : list (N * N)).
(* utxo_entry.rs total_value *)
Definition total_value (r : repr) : N :=
  match r with
  | RValue v => v
  | RRanges rs => fold_right (fun p acc => (snd p - fst p) + acc) 0 rs
  end.

Record cfg := mkCfg { c_sats : bool; c_addresses : bool }.
(* index.rs: first_index_height, have_full_utxo_index (inscriptions indexed) *)
Definition first_index_height (c : cfg) (fih : N) : N :=
  if orb (c_sats c) (c_addresses c) then 0 else fih.
Definition full (c : cfg) (fih : N) : bool := N.eqb (first_index_height c fih) 0.

Inductive failure := Stuck | AssertFull | NotConsumed.

Definition isSome {A} (o : option A) : bool := match o with Some _ => true | None => false end.

Section Layer.
  Variable P : Type.                              (* data stored with an output by the updaters *)
  Variable p_empty : P.                           (* UtxoEntryBuf::new(): nothing stored *)
  Variable node : outpoint -> N.                  (* the node: value of an outpoint *)
  Variable ranges_of : outpoint -> list (N * N).  (* sat ranges the sat index gives a new output *)
  Variable S : Type.                              (* state of the downstream updaters *)
  Variable d_step : S -> N -> tx -> list (N * P) -> S * list P.

  Definition entry := (repr * P)%type.
  Definition emap := outpoint -> option entry.
  Definition upd (m : emap) (o : outpoint) (e : option entry) : emap :=
    fun x => if op_eqb x o then e else m x.
  Record state := mkState { cache : emap; table : emap }.
  Definition queue := list (outpoint * N).

  (* ---- pre-pass ---- *)
  Definition requested (st : state) (txids : list N) (o : outpoint) : bool :=
    andb (andb (negb (is_null o)) (negb (existsb (N.eqb (fst o)) txids)))
         (andb (negb (isSome (cache st o))) (negb (isSome (table st o)))).
  Definition prepass (st : state) (b : block) : list outpoint :=
    flat_map (fun t => filter (requested st (map txid b)) (ins t)) b.

  (* ---- one input of the processing loop; the last component: Some (requested outpoint)
          when the value was received from the queue ---- *)
  Definition lookup (fl : bool) (st : state) (q : queue) (o : outpoint)
    : failure + (state * queue * entry * option outpoint) :=
    match cache st o with
    | Some e => inr (mkState (upd (cache st) o None) (table st), q, e, None)
    | None =>
      match table st o with
      | Some e => inr (mkState (cache st) (upd (table st) o None), q, e, None)
      | None =>
        if fl then inl AssertFull else
        match q with
        | [] => inl Stuck
        | (ro, v) :: q' => inr (st, q', (RValue v, p_empty), Some ro)
        end
      end
    end.

  Fixpoint lookups (fl : bool) (st : state) (q : queue) (os : list outpoint)
    : failure + (state * queue * list entry * list (outpoint * outpoint)) :=
    match os with
    | [] => inr (st, q, [], [])
    | o :: r =>
      match lookup fl st q o with
      | inl f => inl f
      | inr (st1, q1, e, rc) =>
        match lookups fl st1 q1 r with
        | inl f => inl f
        | inr (st2, q2, es, rcs) =>
          inr (st2, q2, e :: es, match rc with Some ro => (ro, o) :: rcs | None => rcs end)
        end
      end
    end.

  Definition out_repr (c : cfg) (o : outpoint) (v : N) : repr :=
    if c_sats c then RRanges (ranges_of o) else RValue v.

  (* utxo_cache.insert(OutPoint { txid, vout }, entry) for every output *)
  Definition add_outputs (c : cfg) (m : emap) (t : tx) (ps : list P) : emap :=
    fun o =>
      if N.eqb (fst o) (txid t) then
        match nth_error (outs t) (N.to_nat (snd o)) with
        | Some v => Some (out_repr c o v, nth (N.to_nat (snd o)) ps p_empty)
        | None => m o
        end
      else m o.

  Definition entry_vals (es : list entry) : list (N * P) :=
    map (fun e => (total_value (fst e), snd e)) es.

  Definition downstream (insc : bool) (s : S) (h : N) (t : tx) (vals : list (N * P)) : S * list P :=
    if insc then d_step s h t vals else (s, []).

  Record ttrace := mkTT { t_vals : list (N * P); t_recv : list (outpoint * outpoint) }.

  Definition process_tx (c : cfg) (fl insc : bool) (h : N) (st : state) (s : S) (q : queue) (t : tx)
    : failure + (state * S * queue * ttrace) :=
    match lookups fl st q (ins t) with
    | inl f => inl f
    | inr (st1, q1, es, rc) =>
      let vals := entry_vals es in
      let '(s1, ps) := downstream insc s h t vals in
      inr (mkState (add_outputs c (cache st1) t ps) (table st1), s1, q1, mkTT vals rc)
    end.

  Fixpoint process_txs (c : cfg) (fl insc : bool) (h : N) (st : state) (s : S) (q : queue) (ts : list tx)
    : failure + (state * S * queue * list ttrace) :=
    match ts with
    | [] => inr (st, s, q, [])
    | t :: r =>
      match process_tx c fl insc h st s q t with
      | inl f => inl f
      | inr (st1, s1, q1, tr) =>
        match process_txs c fl insc h st1 s1 q1 r with
        | inl f => inl f
        | inr (st2, s2, q2, trs) => inr (st2, s2, q2, tr :: trs)
        end
      end
    end.

  (* Updater::commit *)
  Definition flush (st : state) : state :=
    mkState (fun _ => None)
            (fun o => match cache st o with Some e => Some e | None => table st o end).

  Record btrace := mkBT { b_requests : list outpoint; b_txs : list ttrace }.

  Definition process_block (c : cfg) (fih : N) (commit : bool) (h : N)
             (st : state) (s : S) (q : queue) (b : block)
    : failure + (state * S * queue * btrace) :=
    if N.ltb h (first_index_height c fih) then inr (st, s, q, mkBT [] [])
    else
      let insc := N.leb fih h in
      if andb insc (negb (match q with [] => true | _ => false end)) then inl NotConsumed else
      let reqs := if full c fih then [] else prepass st b in
      let q0 := q ++ map (fun o => (o, node o)) reqs in
      match b with
      | [] => inr (st, s, q0, mkBT reqs [])
      | cb :: ts =>
        match process_txs c (full c fih) insc h st s q0 ts with
        | inl f => inl f
        | inr (st1, s1, q1, trs) =>
          let '(s2, ps) := downstream insc s1 h cb [] in
          let st2 := mkState (add_outputs c (cache st1) cb ps) (table st1) in
          inr (if commit then flush st2 else st2, s2, q1, mkBT reqs trs)
        end
      end.

  Fixpoint process_chain (c : cfg) (fih : N) (commits : N -> bool) (h : N)
           (st : state) (s : S) (q : queue) (bs : list block)
    : failure + (state * S * queue * list btrace) :=
    match bs with
    | [] => inr (st, s, q, [])
    | b :: r =>
      match process_block c fih (commits h) h st s q b with
      | inl f => inl f
      | inr (st1, s1, q1, bt) =>
        match process_chain c fih commits (h + 1) st1 s1 q1 r with
        | inl f => inl f
        | inr (st2, s2, q2, bts) => inr (st2, s2, q2, bt :: bts)
        end
      end
    end.

  (* ---- the configuration-free reference: a UTXO map with true values, stored data and
          creation heights; every block is processed ---- *)
  Definition uentry := (N * P * N)%type.
  Definition umap := outpoint -> option uentry.
  Definition uupd (u : umap) (o : outpoint) (e : option uentry) : umap :=
    fun x => if op_eqb x o then e else u x.

  Fixpoint spend (u : umap) (os : list outpoint) : umap * list (N * P) :=
    match os with
    | [] => (u, [])
    | o :: r =>
      let vp := match u o with Some (v, p, _) => (v, p) | None => (0, p_empty) end in
      let '(u', vps) := spend (uupd u o None) r in
      (u', vp :: vps)
    end.

  Definition create (u : umap) (h : N) (t : tx) (ps : list P) : umap :=
    fun o =>
      if N.eqb (fst o) (txid t) then
        match nth_error (outs t) (N.to_nat (snd o)) with
        | Some v => Some (v, nth (N.to_nat (snd o)) ps p_empty, h)
        | None => u o
        end
      else u o.

  Definition ideal_tx (fih : N) (h : N) (u : umap) (s : S) (t : tx) : umap * S * list (N * P) :=
    let '(u1, vals) := spend u (ins t) in
    let '(s1, ps) := downstream (N.leb fih h) s h t vals in
    (create u1 h t ps, s1, vals).

  Fixpoint ideal_txs (fih h : N) (u : umap) (s : S) (ts : list tx) : umap * S * list (list (N * P)) :=
    match ts with
    | [] => (u, s, [])
    | t :: r =>
      let '(u1, s1, vals) := ideal_tx fih h u s t in
      let '(u2, s2, vss) := ideal_txs fih h u1 s1 r in
      (u2, s2, vals :: vss)
    end.

  Definition ideal_block (fih h : N) (u : umap) (s : S) (b : block) : umap * S * list (list (N * P)) :=
    match b with
    | [] => (u, s, [])
    | cb :: ts =>
      let '(u1, s1, vss) := ideal_txs fih h u s ts in
      let '(s2, ps) := downstream (N.leb fih h) s1 h cb [] in
      (create u1 h cb ps, s2, vss)
    end.

  Fixpoint ideal_chain (fih h : N) (u : umap) (s : S) (bs : list block)
    : umap * S * list (list (list (N * P))) :=
    match bs with
    | [] => (u, s, [])
    | b :: r =>
      let '(u1, s1, vss) := ideal_block fih h u s b in
      let '(u2, s2, vsss) := ideal_chain fih (h + 1) u1 s1 r in
      (u2, s2, vss :: vsss)
    end.
End Layer.

(* ---- wire: the value layer alone (no stored data, no downstream) ---- *)
Fixpoint rd_pairs (k : nat) (l : list Z) : list outpoint * list Z :=
  match k with
  | O => ([], l)
  | Datatypes.S k' =>
    match l with
    | a :: b :: r => let '(ps, r') := rd_pairs k' r in ((nZ a, nZ b) :: ps, r')
    | _ => ([], [])
    end
  end.

Fixpoint rd_vals (k : nat) (l : list Z) : list N * list Z :=
  match k with
  | O => ([], l)
  | Datatypes.S k' =>
    match l with
    | a :: r => let '(vs, r') := rd_vals k' r in (nZ a :: vs, r')
    | _ => ([], [])
    end
  end.

Fixpoint rd_txs (k : nat) (l : list Z) : list tx * list Z :=
  match k with
  | O => ([], l)
  | Datatypes.S k' =>
    match l with
    | id :: _flags :: ni :: r =>
      let '(is, r1) := rd_pairs (Z.to_nat ni) r in
      match r1 with
      | no :: r2 =>
        let '(os, r3) := rd_vals (Z.to_nat no) r2 in
        let '(ts, r4) := rd_txs k' r3 in
        (mkTx (nZ id) is os :: ts, r4)
      | [] => ([], [])
      end
    | _ => ([], [])
    end
  end.

Fixpoint rd_blocks (k : nat) (l : list Z) : list block * list Z :=
  match k with
  | O => ([], l)
  | Datatypes.S k' =>
    match l with
    | nt :: r =>
      let '(ts, r1) := rd_txs (Z.to_nat nt) r in
      let '(bs, r2) := rd_blocks k' r1 in
      (ts :: bs, r2)
    | [] => ([], [])
    end
  end.

Fixpoint rd_old (k : nat) (l : list Z) : list (outpoint * N) * list Z :=
  match k with
  | O => ([], l)
  | Datatypes.S k' =>
    match l with
    | a :: b :: v :: r => let '(ps, r') := rd_old k' r in (((nZ a, nZ b), nZ v) :: ps, r')
    | _ => ([], [])
    end
  end.

Definition node_of (old : list (outpoint * N)) (o : outpoint) : N :=
  match find (fun p => op_eqb (fst p) o) old with
  | Some p => snd p
  | None => 0
  end.

Definition wr_btrace (bt : btrace unit) : list Z :=
  zN (N.of_nat (length (b_requests unit bt))) ::
  flat_map (fun o : outpoint => [zN (fst o); zN (snd o)]) (b_requests unit bt) ++
  flat_map (fun tt => zN (N.of_nat (length (t_vals unit tt))) :: map (fun vp : N * unit => zN (fst vp)) (t_vals unit tt))
           (b_txs unit bt).

Definition run_C15 (inp : list Z) : list Z :=
  match inp with
  | scen :: nold :: r =>
    let '(old, r1) := rd_old (Z.to_nat nold) r in
    match r1 with
    | nb :: r2 =>
      let '(bs, _) := rd_blocks (Z.to_nat nb) r2 in
      let fih := nZ scen in
      let c := mkCfg false false in
      let st0 := mkState unit (fun _ => None) (fun _ => None) in
      (* the commit schedule the harness gives this configuration: --commit-interval
         1, 2 or 5000 chosen from the shape of the case (results do not depend on it) *)
      let k := match (nZ nb + nZ nold) mod 3 with 0 => 1 | 1 => 2 | _ => 5000 end in
      match process_chain unit tt (node_of old) (fun _ => []) unit (fun s _ _ _ => (s, []))
                          c fih (fun h => N.eqb (h mod k) 0) 1 st0 tt [] bs with
      | inr (_, _, [], bts) => flat_map wr_btrace bts
      | _ => [(-2)%Z]
      end
    | [] => [(-1)%Z]
    end
  | _ => [(-1)%Z]
  end.
