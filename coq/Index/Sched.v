(* Model of the commit / savepoint / reorg machinery of the indexer:
     src/index.rs          Index::update (retry loop)
     src/index/updater.rs  Updater::update_index (commit triggers), Updater::commit
     src/index/reorg.rs    Reorg::{detect_reorg, handle_reorg, is_savepoint_required, update_savepoints}

   Blocks are opaque payload identifiers.  A block hash commits to the whole
   ancestry of the block, so the hash of the block at height i of a chain c is
   modelled as the prefix [firstn (i+1) c]: two hashes are equal iff the chains
   agree up to that height (collision freedom is the only assumption).

   What the index stores per block (UTXO entries, inscriptions, ...) is a
   function of the list of indexed blocks (property C12); here the database is
   that list plus the bookkeeping the scheduling logic reads and writes:
   LastSavepointHeight, the Commits counter and the key set of
   WRITE_TRANSACTION_STARTING_BLOCK_COUNT_TO_TIMESTAMP.

   Every redb commit is one atomic step; [trace] lists the durable state after
   each of them, in order (used for the crash property C13). *)
From OrdV Require Import Base.Prelude.

Record params := mkP {
  interval : N;     (* settings.savepoint_interval(), > 0 *)
  maxsp : N;        (* settings.max_savepoints(), > 0 *)
  commit_iv : N;    (* settings.commit_interval(), > 0 *)
  fixed : bool      (* true: handle_reorg as repaired by the fix: commit; false: as at the pinned commit *)
}.

Record db := mkDb {
  blocks : list N;        (* HEIGHT_TO_BLOCK_HEADER and everything derived from the blocks *)
  last_sp : N;            (* Statistic::LastSavepointHeight (0 when absent) *)
  commits : N;            (* Statistic::Commits *)
  wtx_starts : list N     (* keys of WRITE_TRANSACTION_STARTING_BLOCK_COUNT_TO_TIMESTAMP, insertion order *)
}.

(* durable state of the redb file: current database + persistent savepoints *)
Record store := mkS {
  cur : db;
  sps : list (N * db);    (* (savepoint id, snapshot), ascending ids *)
  next_id : N
}.

Record node := mkNode {
  chain : list N;         (* best chain, payload ids by height *)
  headers : N             (* getblockchaininfo.headers as reported *)
}.

Definition len {A} (l : list A) : N := N.of_nat (length l).
Definition nth_N {A} (l : list A) (i : N) : option A := nth_error l (N.to_nat i).

(* block hash at height i of a chain = its ancestry *)
Definition hash_at (c : list N) (i : N) : option (list N) :=
  if i <? len c then Some (firstn (N.to_nat (i + 1)) c) else None.

Fixpoint list_N_eqb (a b : list N) : bool :=
  match a, b with
  | [], [] => true
  | x :: a', y :: b' => andb (N.eqb x y) (list_N_eqb a' b')
  | _, _ => false
  end.

Definition opt_hash_eqb (a b : option (list N)) : bool :=
  match a, b with
  | None, None => true
  | Some x, Some y => list_N_eqb x y
  | _, _ => false
  end.

(* Rtx::block_hash(None) = hash of the last stored block *)
Definition tip_hash (c : list N) : option (list N) :=
  match c with [] => None | _ => Some c end.

(* Reorg::is_savepoint_required; N subtraction is truncated = saturating_sub *)
Definition is_sp_required (p : params) (last : N) (hdrs : N) (height : N) : bool :=
  andb (orb (height <? interval p) (interval p <=? height - last))
       (hdrs - height <=? interval p * maxsp p + 1).

Inductive reorg := NoReorg | Recoverable (height depth : N) | Unrecoverable.

(* for depth in 1..max_depth: compare index and node hashes at height - depth *)
Fixpoint depth_search (fuel : nat) (idx nodec : list N) (h depth maxd : N) : reorg :=
  match fuel with
  | O => Unrecoverable
  | S f =>
    if depth <? maxd then
      let ih := if depth <=? h then hash_at idx (h - depth) else tip_hash idx in
      let nh := hash_at nodec (h - depth) in
      if opt_hash_eqb ih nh then Recoverable h depth
      else depth_search f idx nodec h (depth + 1) maxd
    else Unrecoverable
  end.

(* Reorg::detect_reorg for the block at height h of the node chain, against
   the COMMITTED database (index.block_hash opens a read transaction) *)
Definition detect (p : params) (committed : list N) (nodec : list N) (h : N) : reorg :=
  if h =? 0 then NoReorg else
  match hash_at committed (h - 1) with
  | None => NoReorg
  | Some ih =>
    if opt_hash_eqb (Some ih) (hash_at nodec (h - 1)) then NoReorg
    else
      let maxd := (maxsp p - 1) * interval p + h mod interval p in
      depth_search (N.to_nat maxd) committed nodec h 1 maxd
  end.

Fixpoint remove_first_sp (l : list (N * db)) : list (N * db) :=
  match l with [] => [] | _ :: r => r end.

(* Updater::commit followed by Reorg::update_savepoints.
   [working] = blocks as of the open write transaction, [pending] = the key the
   write transaction inserted into the starting-block-count table.
   Returns the new durable store and the durable states after each atomic commit. *)
Definition commit (p : params) (nd : node) (st : store) (working : list N) (pending : N)
  : store * list store :=
  let height := len working in
  let d := cur st in
  (* data commit (Commits + 1); the second, empty commit changes nothing *)
  let d1 := mkDb working (last_sp d) (commits d + 1) (wtx_starts d ++ [pending]) in
  let s1 := mkS d1 (sps st) (next_id st) in
  if is_sp_required p (last_sp d) (headers nd) height then
    (* first transaction: delete the oldest savepoint if at capacity, Commits + 1 *)
    let sps1 := if maxsp p <=? len (sps st) then remove_first_sp (sps st) else sps st in
    let d2 := mkDb working (last_sp d) (commits d1 + 1) (wtx_starts d1) in
    let s2 := mkS d2 sps1 (next_id st) in
    (* second transaction: persistent_savepoint() snapshots the state committed
       so far (d2); then LastSavepointHeight := height, Commits + 1 *)
    let d3 := mkDb working height (commits d2 + 1) (wtx_starts d2) in
    let s3 := mkS d3 (sps1 ++ [(next_id st, d2)]) (next_id st + 1) in
    (s3, [s1; s1; s2; s3])
  else (s1, [s1; s1]).

Inductive pass_outcome := Done | Reorged (r : reorg).

(* The block loop of Updater::update_index over the blocks still to fetch.
   [rest] = node blocks from height (len working) on. *)
Fixpoint pass_loop (p : params) (nd : node) (rest : list N)
         (st : store) (working : list N) (pending : N) (uncommitted : N) (tr : list store)
  : pass_outcome * store * list store :=
  match rest with
  | [] =>
    if 0 <? uncommitted then
      let '(st', t) := commit p nd st working pending in (Done, st', tr ++ t)
    else (Done, st, tr)
  | blk :: rest' =>
    let h := len working in
    match detect p (blocks (cur st)) (chain nd) h with
    | NoReorg =>
      let working' := working ++ [blk] in
      let unc := uncommitted + 1 in
      if orb (unc =? commit_iv p) (is_sp_required p (last_sp (cur st)) (headers nd) (h + 1)) then
        let '(st', t) := commit p nd st working' pending in
        pass_loop p nd rest' st' working' (h + 1) 0 (tr ++ t)
      else pass_loop p nd rest' st working' pending unc tr
    | r => (Reorged r, st, tr)   (* the write transaction is dropped *)
    end
  end.

Definition pass (p : params) (nd : node) (st : store) : pass_outcome * store * list store :=
  let b := blocks (cur st) in
  pass_loop p nd (skipn (length b) (chain nd)) st b (len b) 0 [].

Inductive restore_result := Restored (st : store) | NoSavepoint | PastFork (st : store).

(* Reorg::handle_reorg: restore the oldest persistent savepoint (savepoints
   created after it are invalidated by redb), Commits + 1. *)
Definition handle_reorg (p : params) (st : store) (height depth : N) : restore_result :=
  match sps st with
  | [] => NoSavepoint
  | (id, snap) :: _ =>
    let d := mkDb (blocks snap) (last_sp snap) (commits snap + 1) (wtx_starts snap) in
    let st' := mkS d [(id, snap)] (next_id st) in
    if andb (fixed p) (height - depth + 1 <? len (blocks snap)) then PastFork st
    else Restored st'
  end.

Inductive outcome := UOk | UUnrecoverable | UPanic | UOutOfFuel.

(* Index::update: retry loop.  Returns outcome, durable store, flag
   unrecoverably_reorged (volatile), and the trace of durable states. *)
Fixpoint update (fuel : nat) (p : params) (nd : node) (st : store) (tr : list store)
  : outcome * store * bool * list store :=
  match fuel with
  | O => (UOutOfFuel, st, false, tr)
  | S f =>
    let '(o, st1, t1) := pass p nd st in
    match o with
    | Done => (UOk, st1, false, tr ++ t1)
    | Reorged (Recoverable h d) =>
      match handle_reorg p st1 h d with
      | Restored st2 => update f p nd st2 (tr ++ t1 ++ [st2])
      | NoSavepoint => if fixed p then (UUnrecoverable, st1, true, tr ++ t1) else (UPanic, st1, false, tr ++ t1)
      | PastFork st2 => (UUnrecoverable, st2, true, tr ++ t1)
      end
    | Reorged Unrecoverable => (UUnrecoverable, st1, true, tr ++ t1)
    | Reorged NoReorg => (UOk, st1, false, tr ++ t1)   (* unreachable: pass never returns it *)
    end
  end.

Definition empty_db : db := mkDb [] 0 0 [].
Definition empty_store : store := mkS empty_db [] 0.

(* ------------------------------------------------------------------ *)
(* History interpreter (wire entry point shared by C12, C13, C14).

   input:  interval maxsp commit_iv fixed headers_mode seed ops...   (seed: block contents, ignored here)
     headers_mode 0: node reports headers = 0 (mockcore default)
                  1: node reports headers = chain length - 1 ... see harness
     ops: 1 k      mine k blocks
          2        update                -> emits  code blocks nsps last_sp commits flag nstarts starts...
          3 d n    reorg: drop d tip blocks, mine n new ones
          4        reopen (clears the volatile flag)
          5 c      set commit interval to c (takes effect at the next update)
          6 j      update that crashes after the j-th atomic commit of the call (j = 0: before any)
                                         -> emits  blocks nsps last_sp commits nstarts starts...
          7 h      node reports headers = h from now on (headers_mode 2)
   The genesis block (payload 0) exists from the start.
   code: 0 ok, 1 unrecoverable, 2 does not terminate (fuel exhausted), -2 panic. *)

Record hist := mkH {
  h_p : params;
  h_mode : N;
  h_node : list N;
  h_hdrs : N;
  h_fresh : N;
  h_st : store;
  h_flag : bool;
  h_out : list Z
}.

Fixpoint mine (k : nat) (c : list N) (fresh : N) : list N * N :=
  match k with
  | O => (c, fresh)
  | S k' => mine k' (c ++ [fresh]) (fresh + 1)
  end.

Definition node_of (h : hist) : node :=
  mkNode (h_node h)
         (match h_mode h with
          | 0 => 0
          | 1 => len (h_node h) - 1
          | _ => h_hdrs h
          end).

Definition emit_db (s : store) : list Z :=
  [zN (len (blocks (cur s))); zN (len (sps s)); zN (last_sp (cur s)); zN (commits (cur s));
   zN (len (wtx_starts (cur s)))] ++ zs (wtx_starts (cur s)).

Definition code_of (o : outcome) : Z :=
  match o with UOk => 0 | UUnrecoverable => 1 | UOutOfFuel => 2 | UPanic => (-2) end%Z.

Definition UPDATE_FUEL : nat := 8.

Fixpoint run_hist (fuel : nat) (h : hist) (ops : list Z) : list Z :=
  match fuel with
  | O => h_out h
  | S f =>
    match ops with
    | 1%Z :: k :: r =>
      let '(c, fr) := mine (Z.to_nat k) (h_node h) (h_fresh h) in
      run_hist f (mkH (h_p h) (h_mode h) c (h_hdrs h) fr (h_st h) (h_flag h) (h_out h)) r
    | 2%Z :: r =>
      let '(o, st', fl, _) := update UPDATE_FUEL (h_p h) (node_of h) (h_st h) [] in
      let flag' := orb (h_flag h) fl in
      run_hist f (mkH (h_p h) (h_mode h) (h_node h) (h_hdrs h) (h_fresh h) st' flag'
                      (h_out h ++ [code_of o] ++ emit_db st' ++ [zb flag'])) r
    | 3%Z :: d :: n :: r =>
      let c0 := firstn (length (h_node h) - Z.to_nat d) (h_node h) in
      let '(c, fr) := mine (Z.to_nat n) c0 (h_fresh h) in
      run_hist f (mkH (h_p h) (h_mode h) c (h_hdrs h) fr (h_st h) (h_flag h) (h_out h)) r
    | 4%Z :: r =>
      run_hist f (mkH (h_p h) (h_mode h) (h_node h) (h_hdrs h) (h_fresh h) (h_st h) false (h_out h)) r
    | 5%Z :: c :: r =>
      let p := h_p h in
      run_hist f (mkH (mkP (interval p) (maxsp p) (nZ c) (fixed p)) (h_mode h) (h_node h) (h_hdrs h)
                      (h_fresh h) (h_st h) false (h_out h)) r
    | 6%Z :: j :: r =>
      let '(_, _, _, tr) := update UPDATE_FUEL (h_p h) (node_of h) (h_st h) [] in
      let st' := match Z.to_nat j with
                 | O =>
                   (* aborted in the middle of the first block that gets indexed: nothing of that
                      pass is durable; if the first pass detected a recoverable reorg, the
                      rollback commit has already happened *)
                   match pass (h_p h) (node_of h) (h_st h) with
                   | (Reorged (Recoverable rh rd), s1, _) =>
                     match handle_reorg (h_p h) s1 rh rd with
                     | Restored s2 => s2
                     | _ => h_st h
                     end
                   | _ => h_st h
                   end
                 | S j' => nth j' tr (last tr (h_st h))
                 end in
      run_hist f (mkH (h_p h) (h_mode h) (h_node h) (h_hdrs h) (h_fresh h) st' false
                      (h_out h ++ emit_db st')) r
    | 7%Z :: hd :: r =>
      run_hist f (mkH (h_p h) 2 (h_node h) (nZ hd) (h_fresh h) (h_st h) (h_flag h) (h_out h)) r
    | _ => h_out h
    end
  end.

Definition run_sched (inp : list Z) : list Z :=
  match inp with
  | iv :: mx :: ci :: fx :: mode :: _seed :: ops =>
    let p := mkP (nZ iv) (nZ mx) (nZ ci) (negb (Z.eqb fx 0)) in
    if orb (orb (interval p =? 0) (maxsp p =? 0)) (commit_iv p =? 0) then [(-1)%Z] else
    run_hist (length ops + 1) (mkH p (nZ mode) [0] 0 1 empty_store false []) ops
  | _ => [(-1)%Z]
  end.

Definition run_C12 := run_sched.
Definition run_C13 := run_sched.
Definition run_C14 := run_sched.
