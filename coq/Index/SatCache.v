(* The sat index with the UTXO map split as in the code: utxo_cache (outputs created since the last
   commit) in front of OUTPOINT_TO_UTXO_ENTRY, with commits after an arbitrary subset of the blocks.

   src/index/updater.rs
     index_utxo_entries  a spent input is taken from utxo_cache if it is there, otherwise from the
                         table; created outputs are inserted into utxo_cache
     commit              every cache entry is written to the table (insert overwrites)
   Everything else (FIFO assignment, subsidy, lost ranges) is shared with Index/SatIndex.v.  This
   model exists to state exactly when the one-map model of SatIndex.v is faithful: unless a spent
   input is found in the cache while the table also holds an entry for the same outpoint (ghost flag
   [c_shadow], only possible after a duplicate txid), both give the same UTXO content.
   SAT_TO_SATPOINT is written directly (it is not cached); the ghost list of destroyed ranges is not
   repeated here.  The wire entry points run_C01 / run_C02 run this model with the commit points of
   the real index when they are determined by the case (far-ahead headers: no savepoint commits),
   and with a commit after every block otherwise. *)
From OrdV Require Import Base.Prelude Generated Index.SatIndex.

Record cstate := mkC { c_cache : umap; c_table : umap; c_shadow : bool }.

Fixpoint take_inputs2 (inps : list outpoint) (c : cstate) : Res (list range * cstate) :=
  match inps with
  | [] => Ok ([], c)
  | i :: r =>
    match aget op_eqb i (c_cache c) with
    | Some rs =>
      let sh := match aget op_eqb i (c_table c) with Some _ => true | None => c_shadow c end in
      do '(rest, c') <- take_inputs2 r (mkC (adel op_eqb i (c_cache c)) (c_table c) sh);
      Ok (rs ++ rest, c')
    | None =>
      match aget op_eqb i (c_table c) with
      | Some rs =>
        do '(rest, c') <- take_inputs2 r (mkC (c_cache c) (adel op_eqb i (c_table c)) (c_shadow c));
        Ok (rs ++ rest, c')
      | None => Panic 2
      end
    end
  end.

Definition index_tx2 (t : tx) (c : cstate) : Res (cstate * list range * writes) :=
  do '(irs, c1) <- take_inputs2 (ins t) c;
  do '(ents, lft, w) <- assign_outputs (txid t) 0 (outs t) irs;
  Ok (mkC (fst (put_outputs (txid t) 0 ents (c_cache c1) [])) (c_table c1) (c_shadow c1), lft, w).

Fixpoint index_txs2 (ts : list tx) (c : cstate) (cbin : list range) (w : writes)
  : Res (cstate * list range * writes) :=
  match ts with
  | [] => Ok (c, cbin, w)
  | t :: ts' => do '(c', lft, w') <- index_tx2 t c; index_txs2 ts' c' (cbin ++ lft) (w ++ w')
  end.

(* Updater::commit *)
Definition flush2 (c : cstate) : cstate :=
  mkC [] (fold_left (fun tb kv => aset op_eqb (fst kv) (snd kv) tb) (c_cache c) (c_table c)) (c_shadow c).

Record state2 := mkS2 {
  s_c : cstate; s_lost : list range; s_lost_sats : N; s_s2sp : list (N * satpoint); s_height : N }.

Definition index_block2 (commit : bool) (s : state2) (b : list tx) : Res state2 :=
  let h := s_height s in
  let cbin0 := if 0 <? subsidy h then [(starting_sat h, starting_sat h + subsidy h)] else [] in
  match b with
  | [] => Ok (mkS2 (if commit then flush2 (s_c s) else s_c s) (s_lost s) (s_lost_sats s) (s_s2sp s) (h + 1))
  | cb :: rest =>
    do '(c1, cbin, w1) <- index_txs2 rest (s_c s) cbin0 [];
    do '(ents, lostr, w2) <- assign_outputs (txid cb) 0 (outs cb) cbin;
    let c2 := mkC (fst (put_outputs (txid cb) 0 ents (c_cache c1) [])) (c_table c1) (c_shadow c1) in
    let '(w3, ls) := lost_writes lostr (s_lost_sats s) in
    Ok (mkS2 (if commit then flush2 c2 else c2) (s_lost s ++ lostr) ls
             (apply_writes (w1 ++ w2 ++ w3) (s_s2sp s)) (h + 1))
  end.

(* [sched]: commit after the block or not; blocks beyond the schedule are committed *)
Fixpoint run2_from (sched : list bool) (s : state2) (c : list (list tx)) : Res state2 :=
  match c with
  | [] => Ok s
  | b :: r =>
    let '(cm, sched') := match sched with [] => (true, []) | x :: y => (x, y) end in
    do s' <- index_block2 cm s b; run2_from sched' s' r
  end.

Definition init2 : state2 := mkS2 (mkC [] [] false) [] 0 [] 0.
Definition run2 (sched : list bool) (c : list (list tx)) : Res state2 := run2_from sched init2 c.

(* what the index holds for an outpoint: the cache entry if any, else the table entry *)
Definition view (c : cstate) (o : outpoint) : option (list range) :=
  match aget op_eqb o (c_cache c) with Some e => Some e | None => aget op_eqb o (c_table c) end.

(* ------------------------------------------------------------------ wire entry points *)

(* what the tables hold: cache entries written over the table (empty cache after a commit) *)
Definition to_state (s : state2) : state :=
  mkSt (c_table (flush2 (s_c s))) (s_lost s) (s_lost_sats s) (s_s2sp s) [] (s_height s).

Definition run_case (inp : list Z) : Res state * list Z :=
  let '(c, q) := read_chain inp in
  (match run2 (case_flags inp (N.of_nat (length c))) c with
   | Ok s => Ok (to_state s)
   | Err e => Err e
   | Panic t => Panic t
   end, q).

Definition run_C01 (inp : list Z) : list Z :=
  match fst (run_case inp) with
  | Ok st => w_state st
  | Err e => [(-1)%Z; zN e]
  | Panic t => [(-2)%Z]
  end.


Definition run_C02 (inp : list Z) : list Z :=
  let '(r, q) := run_case inp in
  match r with
  | Ok st => 0%Z :: zN (height st) :: boundary_finds st ++ answer (length q) st q
  | Err e => [(-1)%Z; zN e]
  | Panic t => [(-2)%Z]
  end.
