(* The sat index with the UTXO map split as in the code: utxo_cache (outputs created since the last
   commit) in front of OUTPOINT_TO_UTXO_ENTRY, with commits after an arbitrary subset of the blocks.

   src/index/updater.rs
     index_utxo_entries  a spent input is taken from utxo_cache if it is there, otherwise from the
                         table; created outputs are inserted into utxo_cache
     commit              every cache entry is written to the table (insert overwrites)
   Everything else (FIFO assignment, subsidy, lost ranges) is shared with Index/SatIndex.v.  This
   model exists to state exactly when the one-map model of SatIndex.v is faithful: unless a spent
   input is found in the cache while the table also holds an entry for the same outpoint (ghost flag
   [c_shadow], only possible after a duplicate txid), both give the same UTXO content.
   SAT_TO_SATPOINT and the ghost list of destroyed ranges are not repeated here. *)
From OrdV Require Import Base.Prelude Generated Index.SatIndex.

Record cstate := mkC { c_cache : umap; c_table : umap; c_shadow : bool }.

Fixpoint take_inputs2 (inps : list outpoint) (c : cstate) : Res (list range * cstate) :=
  match inps with
  | [] => Ok ([], c)
  | i :: r =>
    match aget op_eqb i (c_cache c) with
    | Some rs =>
      let sh := match aget op_eqb i (c_table c) with Some _ => true | None => c_shadow c end in
      do '(rest, c') <- take_inputs2 r (mkC (adel op_eqb i (c_cache c)) (c_table c) sh);
      Ok (rs ++ rest, c')
    | None =>
      match aget op_eqb i (c_table c) with
      | Some rs =>
        do '(rest, c') <- take_inputs2 r (mkC (c_cache c) (adel op_eqb i (c_table c)) (c_shadow c));
        Ok (rs ++ rest, c')
      | None => Panic 2
      end
    end
  end.

Definition index_tx2 (t : tx) (c : cstate) : Res (cstate * list range) :=
  do '(irs, c1) <- take_inputs2 (ins t) c;
  do '(ents, lft, w) <- assign_outputs (txid t) 0 (outs t) irs;
  Ok (mkC (fst (put_outputs (txid t) 0 ents (c_cache c1) [])) (c_table c1) (c_shadow c1), lft).

Fixpoint index_txs2 (ts : list tx) (c : cstate) (cbin : list range) : Res (cstate * list range) :=
  match ts with
  | [] => Ok (c, cbin)
  | t :: ts' => do '(c', lft) <- index_tx2 t c; index_txs2 ts' c' (cbin ++ lft)
  end.

(* Updater::commit *)
Definition flush2 (c : cstate) : cstate :=
  mkC [] (fold_left (fun tb kv => aset op_eqb (fst kv) (snd kv) tb) (c_cache c) (c_table c)) (c_shadow c).

Record state2 := mkS2 { s_c : cstate; s_lost : list range; s_height : N }.

Definition index_block2 (commit : bool) (s : state2) (b : list tx) : Res state2 :=
  let h := s_height s in
  let cbin0 := if 0 <? subsidy h then [(starting_sat h, starting_sat h + subsidy h)] else [] in
  match b with
  | [] => Ok (mkS2 (if commit then flush2 (s_c s) else s_c s) (s_lost s) (h + 1))
  | cb :: rest =>
    do '(c1, cbin) <- index_txs2 rest (s_c s) cbin0;
    do '(ents, lostr, w) <- assign_outputs (txid cb) 0 (outs cb) cbin;
    let c2 := mkC (fst (put_outputs (txid cb) 0 ents (c_cache c1) [])) (c_table c1) (c_shadow c1) in
    Ok (mkS2 (if commit then flush2 c2 else c2) (s_lost s ++ lostr) (h + 1))
  end.

(* [sched]: commit after the block or not; blocks beyond the schedule are committed *)
Fixpoint run2_from (sched : list bool) (s : state2) (c : list (list tx)) : Res state2 :=
  match c with
  | [] => Ok s
  | b :: r =>
    let '(cm, sched') := match sched with [] => (true, []) | x :: y => (x, y) end in
    do s' <- index_block2 cm s b; run2_from sched' s' r
  end.

Definition init2 : state2 := mkS2 (mkC [] [] false) [] 0.
Definition run2 (sched : list bool) (c : list (list tx)) : Res state2 := run2_from sched init2 c.

(* what the index holds for an outpoint: the cache entry if any, else the table entry *)
Definition view (c : cstate) (o : outpoint) : option (list range) :=
  match aget op_eqb o (c_cache c) with Some e => Some e | None => aget op_eqb o (c_table c) end.
