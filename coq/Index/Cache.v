(* Model of the write-back UTXO cache discipline of src/index/updater.rs:
     - index_block reads and removes spent entries from the in-memory
       utxo_cache first and from OUTPOINT_TO_UTXO_ENTRY otherwise,
     - inserts new outputs into utxo_cache only,
     - appends to the entries of the special outpoints (lost sats, unbound
       inscriptions) through utxo_cache.entry(o).or_insert(empty) + merged,
     - Updater::commit flushes the cache into the table, merging special
       outpoints with the stored value.
   Every other table is written directly inside the write transaction ([A]).

   A block is a program over these operations whose continuation may depend on
   every value it reads, so the statement quantifies over every possible
   index_block that respects the access discipline. *)
From OrdV Require Import Base.Prelude.

Section Cache.
  Variable E : Type.                   (* a UTXO entry *)
  Variable A : Type.                   (* all tables written directly *)
  Variable merged : E -> E -> E.       (* UtxoEntryBuf::merged *)
  Variable empty : E.                  (* UtxoEntryBuf::empty *)
  Variable special : N -> bool.        (* Index::is_special_outpoint *)

  Definition map := N -> option E.
  Definition upd (m : map) (o : N) (v : option E) : map :=
    fun x => if N.eqb x o then v else m x.

  Inductive prog :=
  | Ret
  | Take (o : N) (k : option E -> prog)    (* spend an input *)
  | Mem (o : N) (k : bool -> prog)         (* is the outpoint known (fetcher pre-pass) *)
  | Put (o : N) (e : E) (k : prog)         (* create an output *)
  | Append (o : N) (e : E) (k : prog)      (* add to a special outpoint *)
  | AuxStep (f : A -> A) (k : A -> prog).  (* read and write any other table *)

  (* the access discipline: real outputs are taken/put, special ones appended *)
  Fixpoint wf (pr : prog) : Prop :=
    match pr with
    | Ret => True
    | Take o k => special o = false /\ forall r, wf (k r)
    | Mem o k => special o = false /\ forall r, wf (k r)
    | Put o e k => special o = false /\ wf k
    | Append o e k => special o = true /\ wf k
    | AuxStep f k => forall a, wf (k a)
    end.

  (* implementation: table + cache *)
  Record cstate := mkC { table : map; cache : map; caux : A }.

  Fixpoint exec_c (pr : prog) (s : cstate) : cstate :=
    match pr with
    | Ret => s
    | Take o k =>
      match cache s o with
      | Some e => exec_c (k (Some e)) (mkC (table s) (upd (cache s) o None) (caux s))
      | None =>
        match table s o with
        | Some e => exec_c (k (Some e)) (mkC (upd (table s) o None) (cache s) (caux s))
        | None => exec_c (k None) s
        end
      end
    | Mem o k =>
      exec_c (k (match cache s o with Some _ => true
                 | None => match table s o with Some _ => true | None => false end end)) s
    | Put o e k => exec_c k (mkC (table s) (upd (cache s) o (Some e)) (caux s))
    | Append o e k =>
      let c := match cache s o with Some c => c | None => empty end in
      exec_c k (mkC (table s) (upd (cache s) o (Some (merged c e))) (caux s))
    | AuxStep f k => exec_c (k (caux s)) (mkC (table s) (cache s) (f (caux s)))
    end.

  (* Updater::commit: flush the cache, merging special outpoints *)
  Definition flush (s : cstate) : cstate :=
    mkC (fun o => match cache s o with
                  | Some c => if special o
                              then match table s o with Some t => Some (merged t c) | None => Some c end
                              else Some c
                  | None => table s o
                  end)
        (fun _ => None) (caux s).

  (* specification: one map, no cache.  [None] = the chain creates an output
     whose outpoint is still unspent (forbidden by BIP 30 for every block after
     the two historical exceptions); the theorem is stated for chains on which
     this never happens. *)
  Record sstate := mkSp { smap : map; saux : A }.

  Fixpoint exec_s (pr : prog) (s : sstate) : option sstate :=
    match pr with
    | Ret => Some s
    | Take o k =>
      match smap s o with
      | Some e => exec_s (k (Some e)) (mkSp (upd (smap s) o None) (saux s))
      | None => exec_s (k None) s
      end
    | Mem o k => exec_s (k (match smap s o with Some _ => true | None => false end)) s
    | Put o e k =>
      match smap s o with
      | Some _ => None
      | None => exec_s k (mkSp (upd (smap s) o (Some e)) (saux s))
      end
    | Append o e k =>
      let c := match smap s o with Some c => c | None => empty end in
      exec_s k (mkSp (upd (smap s) o (Some (merged c e))) (saux s))
    | AuxStep f k => exec_s (k (saux s)) (mkSp (smap s) (f (saux s)))
    end.

  (* a run: blocks with a commit after the blocks whose flag is set, and a final commit *)
  Fixpoint run_c (bs : list (prog * bool)) (s : cstate) : cstate :=
    match bs with
    | [] => flush s
    | (pr, commit_now) :: r =>
      let s' := exec_c pr s in run_c r (if commit_now then flush s' else s')
    end.

  Fixpoint run_s (bs : list prog) (s : sstate) : option sstate :=
    match bs with
    | [] => Some s
    | pr :: r => match exec_s pr s with Some s' => run_s r s' | None => None end
    end.
End Cache.
