(* Model of the address index (ord --index-addresses) — property C17.

   src/index/updater.rs
     Updater::index_utxo_entries   a spent input is taken from utxo_cache if it is there, otherwise
                                   removed from OUTPOINT_TO_UTXO_ENTRY together with its
                                   (script, outpoint) pair in SCRIPT_PUBKEY_TO_OUTPOINT
                                   (panic "script pubkey entry ... not found" if the pair is absent);
                                   every output is inserted into utxo_cache with its value and script
     Updater::commit               every cache entry is written to the table (insert overwrites) and
                                   its (script, outpoint) pair is inserted in the multimap
     src/index.rs Index::get_address_info   the outpoints listed under a script
   Commits happen after an arbitrary subset of the blocks ([sched]: commit after the block or not;
   blocks beyond the schedule are committed, so the empty schedule commits after every block).
   Entries are (value, script id); sat ranges and the
   null-outpoint pseudo entry (listed under the empty script when sats are indexed and some were
   lost) are left out.
   Panic tags: 2 input not in the UTXO set, 5 "script pubkey entry not found".
   Ghost: [shadowed] is set when a spent input is found in the cache while the table also holds an
   entry for the same outpoint (only possible with a duplicate txid): the code then leaves the table
   entry in place (known finding dup-spent-before-commit). *)
From OrdV Require Import Base.Prelude Index.SatIndex.

Definition aentry := (N * N)%type.                 (* value, script id *)
Definition amap := list (outpoint * aentry).
Definition pair_eqb (a b : N * outpoint) : bool := andb (fst a =? fst b) (op_eqb (snd a) (snd b)).

Fixpoint mm_mem (p : N * outpoint) (mm : list (N * outpoint)) : bool :=
  match mm with [] => false | q :: r => if pair_eqb p q then true else mm_mem p r end.
Fixpoint mm_remove (p : N * outpoint) (mm : list (N * outpoint)) : list (N * outpoint) :=
  match mm with [] => [] | q :: r => if pair_eqb p q then mm_remove p r else q :: mm_remove p r end.
(* redb multimap insert: a set *)
Definition mm_insert (p : N * outpoint) (mm : list (N * outpoint)) : list (N * outpoint) :=
  if mm_mem p mm then mm else p :: mm.

Record astate := mkA {
  cache : amap;                      (* utxo_cache: outputs created since the last commit *)
  table : amap;                      (* OUTPOINT_TO_UTXO_ENTRY: value and script per unspent output *)
  mm : list (N * outpoint);          (* SCRIPT_PUBKEY_TO_OUTPOINT *)
  shadowed : bool                    (* ghost, see above *)
}.

(* working state inside a block *)
Record wstate := mkW { w_cache : amap; w_table : amap; w_mm : list (N * outpoint); w_shadow : bool }.

Fixpoint spend_inputs (inps : list outpoint) (w : wstate) : Res wstate :=
  match inps with
  | [] => Ok w
  | i :: r =>
    match aget op_eqb i (w_cache w) with
    | Some _ =>
      let sh := match aget op_eqb i (w_table w) with Some _ => true | None => w_shadow w end in
      spend_inputs r (mkW (adel op_eqb i (w_cache w)) (w_table w) (w_mm w) sh)
    | None =>
      match aget op_eqb i (w_table w) with
      | Some (v, s) =>
        if mm_mem (s, i) (w_mm w)
        then spend_inputs r (mkW (w_cache w) (adel op_eqb i (w_table w)) (mm_remove (s, i) (w_mm w)) (w_shadow w))
        else Panic 5
      | None => Panic 2
      end
    end
  end.

Fixpoint cache_outputs (t vout : N) (os : list (N * N)) (c : amap) : amap :=
  match os with
  | [] => c
  | o :: r => cache_outputs t (vout + 1) r (aset op_eqb (t, vout) o c)
  end.

Definition a_tx (coinbase : bool) (t : tx) (w : wstate) : Res wstate :=
  do w1 <- (if coinbase then Ok w else spend_inputs (ins t) w);
  Ok (mkW (cache_outputs (txid t) 0 (outs t) (w_cache w1)) (w_table w1) (w_mm w1) (w_shadow w1)).

Fixpoint a_txs (ts : list tx) (w : wstate) : Res wstate :=
  match ts with
  | [] => Ok w
  | t :: r => do w1 <- a_tx false t w; a_txs r w1
  end.

(* Updater::commit *)
Fixpoint flush (c : amap) (tb : amap) (m : list (N * outpoint)) : amap * list (N * outpoint) :=
  match c with
  | [] => (tb, m)
  | (k, (v, s)) :: r => flush r (aset op_eqb k (v, s) tb) (mm_insert (s, k) m)
  end.

Definition a_block (commit : bool) (st : astate) (b : list tx) : Res astate :=
  match b with
  | [] =>
    if commit then let '(tb, m) := flush (cache st) (table st) (mm st) in Ok (mkA [] tb m (shadowed st))
    else Ok st
  | cb :: rest =>
    do w1 <- a_txs rest (mkW (cache st) (table st) (mm st) (shadowed st));
    do w2 <- a_tx true cb w1;
    if commit then
      let '(tb, m) := flush (w_cache w2) (w_table w2) (w_mm w2) in Ok (mkA [] tb m (w_shadow w2))
    else Ok (mkA (w_cache w2) (w_table w2) (w_mm w2) (w_shadow w2))
  end.

Fixpoint a_run_from (sched : list bool) (st : astate) (c : list (list tx)) : Res astate :=
  match c with
  | [] => Ok st
  | b :: r =>
    let '(cm, sched') := match sched with [] => (true, []) | x :: y => (x, y) end in
    do st' <- a_block cm st b; a_run_from sched' st' r
  end.

Definition a_init : astate := mkA [] [] [] false.
Definition a_run (sched : list bool) (c : list (list tx)) : Res astate := a_run_from sched a_init c.

(* ------------------------------------------------------------------ Spec: the unspent outputs *)

(* one map: spent inputs leave, outputs enter (an equal outpoint is replaced) *)
Fixpoint u_spend (inps : list outpoint) (u : amap) : amap :=
  match inps with [] => u | i :: r => u_spend r (adel op_eqb i u) end.

Definition u_tx (coinbase : bool) (t : tx) (u : amap) : amap :=
  cache_outputs (txid t) 0 (outs t) (if coinbase then u else u_spend (ins t) u).

Definition u_block (u : amap) (b : list tx) : amap :=
  match b with
  | [] => u
  | cb :: rest => u_tx true cb (fold_left (fun u t => u_tx false t u) rest u)
  end.

Definition u_run (c : list (list tx)) : amap := fold_left u_block c [].

(* outpoints listed for a script *)
Definition listed (st : astate) (s : N) : list outpoint :=
  map snd (filter (fun p => fst p =? s) (mm st)).

(* ------------------------------------------------------------------ wire entry point *)

Definition op_pair_le (a b : N * outpoint) : bool :=
  orb (fst a <? fst b) (andb (fst a =? fst b) (op_le (snd a) (snd b))).

Definition run_C17 (inp : list Z) : list Z :=
  let c := fst (read_chain inp) in
  match a_run (case_flags inp (N.of_nat (length c))) c with
  | Ok st =>
    let es := isort (fun a b => op_le (fst a) (fst b)) (table st) in
    let ps := isort op_pair_le (mm st) in
    [0%Z; zN (N.of_nat (length es))]
    ++ flat_map (fun kv => [zN (fst (fst kv)); zN (snd (fst kv)); zN (fst (snd kv)); zN (snd (snd kv))]) es
    ++ zN (N.of_nat (length ps))
    :: flat_map (fun p => [zN (fst p); zN (fst (snd p)); zN (snd (snd p))]) ps
  | Err e => [(-1)%Z; zN e]
  | Panic t => [(-2)%Z]
  end.
