(* Model of the listing / pagination / view logic behind the explorer's JSON and recursive
   endpoints, as functions of the index tables (the projection of Index::verif_dump() that the
   harness writes: inscription ids are sequence numbers, outpoints are indexes into an outpoint table).

     src/index.rs   get_children_by_sequence_number_paginated, get_parents_by_sequence_number_paginated,
                    get_inscription_ids_by_sat_paginated, get_inscription_id_by_sat_indexed,
                    get_inscriptions_in_block, inscription_info, inscriptions_on_output,
                    get_utxo_recursive, get_output_info (inscription list and value only)
     src/subcommand/server/r.rs   children*, parents*, sat, sat_paginated, sat_at_index, inscription,
                                  utxo, get_relative_inscription
     src/subcommand/server.rs     children_paginated, inscriptions_in_block_paginated, inscription (JSON),
                                  output (JSON), sat (JSON: inscriptions and satpoint)

   [fixed = true] is the code after the two repairs made for C18 (page offsets saturate instead of
   overflowing; the null outpoint of lost sats is treated like the unbound outpoint in /sat and
   /r/inscription); [fixed = false] is the pinned commit.  Handler glue (routing, JSON encoding,
   node look-ups for output values) is tied by correspondence only. *)
From OrdV Require Import Base.Prelude Base.Wire Generated Server.Content.

(* ------------------------------------------------------------------ list algebra *)

(* Iterator::skip / take with binary counters (structural on the list) *)
Fixpoint skipN {A} (n : N) (l : list A) : list A :=
  match l with
  | [] => []
  | x :: t => if n =? 0 then l else skipN (n - 1) t
  end.

Fixpoint firstN {A} (n : N) (l : list A) : list A :=
  match l with
  | [] => []
  | x :: t => if n =? 0 then [] else x :: firstN (n - 1) t
  end.

(* the specification: page i of size [size] and whether a later page is non-empty *)
Definition page {A} (l : list A) (size i : N) : list A * bool :=
  let rest := skipN (i * size) l in (firstN size rest, size <? len rest).

(* the implementation after the repair: skip(page_index.saturating_mul(page_size))
   .take(page_size.saturating_add(1)), more = len > page_size, pop *)
Definition sat_mul64 (a b : N) : N := N.min (a * b) U64_MAX.
Definition page_impl {A} (l : list A) (size i : N) : list A * bool :=
  let got := firstN (N.min (size + 1) U64_MAX) (skipN (sat_mul64 i size) l) in
  let more := size <? len got in
  ((if more then firstN size got else got), more).

(* the pinned commit: page_index * page_size in usize, overflow = panic in the dev profile *)
Definition page_pinned {A} (l : list A) (size i : N) : Res (list A * bool) :=
  if U64_MAX <? i * size then Panic 1 else Ok (page_impl l size i).

(* ------------------------------------------------------------------ tables *)

Record entry := mkE {
  e_seq : N; e_number : Z; e_sat : option N; e_charms : N; e_fee : N; e_height : N;
  e_ts : N; e_op : N; e_off : N; e_parents : list N
}.

Record opinfo := mkO {
  o_kind : N;                          (* 0 ordinary, 1 unbound outpoint, 2 null outpoint (lost) *)
  o_value : option N;                  (* value of that transaction output on the chain, if the transaction exists *)
  o_utxo : option (N * list (N * N))   (* OUTPOINT_TO_UTXO_ENTRY: total value, (sequence number, offset) as stored *)
}.

Record tables := mkT {
  t_index_sats : bool;
  t_entries : list entry;              (* SEQUENCE_NUMBER_TO_INSCRIPTION_ENTRY + SEQUENCE_NUMBER_TO_SATPOINT *)
  t_children : list (N * list N);      (* SEQUENCE_NUMBER_TO_CHILDREN *)
  t_sats : list (N * list N);          (* SAT_TO_SEQUENCE_NUMBER *)
  t_heights : list (N * N);            (* HEIGHT_TO_LAST_SEQUENCE_NUMBER *)
  t_ops : list opinfo;
  t_satpoints : list (N * (N * N))     (* SAT_TO_SATPOINT (rare sats) *)
}.

Definition entry_of (t : tables) (s : N) : option entry := find (fun e => e_seq e =? s) (t_entries t).
Definition multi (m : list (N * list N)) (k : N) : list N := match assoc_N k m with Some l => l | None => [] end.
Definition children_of (t : tables) (s : N) : list N := multi (t_children t) s.
Definition on_sat (t : tables) (sat : N) : list N := multi (t_sats t) sat.
Definition op_of (t : tables) (o : N) : option opinfo := nth_error (t_ops t) (N.to_nat o).
Definition op_kind (t : tables) (o : N) : N := match op_of t o with Some x => o_kind x | None => 0 end.

Definition CHARM_MASK : N := 16383.   (* Charm::charms keeps the 14 charms of Charm::ALL *)
Definition LOST_FLAG : N := 16.       (* Charm::Lost = 4 *)

Inductive reply :=
| R400 | R404 | R500 | RPanic
| RPage (ids : list N) (more : bool) (pg : N)
| RRelPage (es : list entry) (more : bool) (pg : N)
| ROptId (o : option N)
| RRel (e : entry) (value : option N)
| RInscription (e : entry) (charms : N) (child_count : N) (children : list N) (next : option N)
               (parents : list N) (previous : option N) (value : option N)
| ROutput (ins : option (list N)) (value : N)
| RSat (ins : list N) (sp : option (N * N))
| ROutputR (ins : option (list N)) (value : N) (runes : option (list (N * N)))   (* output with its rune balances *)
| ROutputs (l : list (N * (option (list N) * (N * option (list (N * N)))))).      (* /outputs/<address> *)

(* what outputs hold besides inscriptions, and which outputs an address owns (needs --index-addresses and
   --index-runes; [h_index] says whether the state was indexed with both) *)
Record holdings := mkH {
  h_index : bool;
  h_addresses : list (list N);          (* SCRIPT_PUBKEY_TO_OUTPOINT of the addresses of interest: outpoint indexes *)
  h_runes : list (N * list (N * N))     (* OUTPOINT_TO_RUNE_BALANCES: outpoint index -> (rune index, amount) *)
}.

Definition rune_balances (h : holdings) (o : N) : list (N * N) :=
  match assoc_N o (h_runes h) with Some l => l | None => [] end.
(* Index::get_rune_balances_for_output: None without a rune index *)
Definition runes_view (h : holdings) (o : N) : option (list (N * N)) :=
  if h_index h then Some (rune_balances h o) else None.
Definition address_ops (h : holdings) (a : N) : list N := nth (N.to_nat a) (h_addresses h) [].

(* the `type` query parameter of /outputs/<address> *)
Inductive otype := TAny | TCardinal | TInscribed | TRunic.

Definition is_nil {A} (l : list A) : bool := match l with [] => true | _ => false end.

Definition PAGE : N := RECURSIVE_PAGE_SIZE.

Section Api.
  Variable fixed : bool.

  Definition paginate {A} (l : list A) (size i : N) : Res (list A * bool) :=
    if fixed then Ok (page_impl l size i) else page_pinned l size i.

  Definition with_page {A} (r : Res (list A * bool)) (k : list A -> bool -> reply) : reply :=
    match r with Ok (l, m) => k l m | Err _ => R500 | Panic _ => RPanic end.

  (* get_relative_inscription for every id; a missing entry is a 404 *)
  Fixpoint relatives (t : tables) (ids : list N) : option (list entry) :=
    match ids with
    | [] => Some []
    | s :: r => match entry_of t s, relatives t r with
                | Some e, Some es => Some (e :: es)
                | _, _ => None
                end
    end.

  (* r::children_paginated, Server::children_paginated (JSON) *)
  Definition children_page (t : tables) (size s pg : N) : reply :=
    match entry_of t s with
    | None => R404
    | Some e => with_page (paginate (children_of t s) size pg) (fun l m => RPage l m pg)
    end.

  Definition children_inscriptions (t : tables) (s pg : N) : reply :=
    match entry_of t s with
    | None => R404
    | Some e => with_page (paginate (children_of t s) PAGE pg)
                  (fun l m => match relatives t l with Some es => RRelPage es m pg | None => R404 end)
    end.

  (* r::parents_paginated: the page index must fit u32, checked after the look-up *)
  Definition parents_page (t : tables) (s pg : N) : reply :=
    match entry_of t s with
    | None => R404
    | Some e => with_page (paginate (e_parents e) PAGE pg)
                  (fun l m => if U32_MAX <? pg then R500 else RPage l m pg)
    end.

  Definition parent_inscriptions (t : tables) (s pg : N) : reply :=
    match entry_of t s with
    | None => R404
    | Some e => with_page (paginate (e_parents e) PAGE pg)
                  (fun l m => match relatives t l with Some es => RRelPage es m pg | None => R404 end)
    end.

  (* r::sat_paginated: u64 arithmetic, saturating in both versions *)
  Definition sat_page (t : tables) (sat pg : N) : reply :=
    if negb (t_index_sats t) then R404 else
    let '(l, m) := page_impl (on_sat t sat) PAGE pg in RPage l m pg.

  Definition sat_at (t : tables) (sat : N) (i : Z) : reply :=
    if orb (i <? ISIZE_MIN)%Z (ISIZE_MAX <? i)%Z then R400 else
    if negb (t_index_sats t) then R404 else ROptId (nth_signed (on_sat t sat) i).

  (* the transaction output an inscription sits in: None = no such transaction (404) *)
  Definition output_value (t : tables) (o : N) : option (option N) :=
    match op_of t o with
    | Some x => match o_value x with Some v => Some (Some v) | None => None end
    | None => None
    end.

  (* r::inscription *)
  Definition r_inscription (t : tables) (s : N) : reply :=
    match entry_of t s with
    | None => R404
    | Some e =>
      let k := op_kind t (e_op e) in
      if orb (k =? 1) (andb fixed (k =? 2)) then RRel e None
      else match output_value t (e_op e) with
           | Some v => RRel e v
           | None => R404
           end
    end.

  (* Index::get_inscriptions_in_block + Server::inscriptions_in_block_paginated *)
  Fixpoint range_from (lo : N) (n : nat) : list N :=
    match n with O => [] | S k => lo :: range_from (lo + 1) k end.
  Definition in_block (t : tables) (h : N) : list N :=
    match assoc_N h (t_heights t) with
    | None => []
    | Some newest =>
      let oldest := match assoc_N (h - 1) (t_heights t) with Some x => x | None => 0 end in
      range_from oldest (N.to_nat (newest - oldest))
    end.
  Definition block_page (t : tables) (h pg : N) : reply :=
    let '(l, m) := page_impl (in_block t h) SERVER_PAGE_SIZE pg in RPage l m pg.

  (* Index::inscription_info (JSON part) *)
  Definition number_to_seq (t : tables) (n : Z) : option N :=
    match find (fun e => (e_number e =? n)%Z) (t_entries t) with Some e => Some (e_seq e) | None => None end.
  Definition inscription_json (t : tables) (s : option N) : reply :=
    match s with
    | None => R404
    | Some s =>
      match entry_of t s with
      | None => R404
      | Some e =>
        let k := op_kind t (e_op e) in
        let value := if orb (k =? 1) (k =? 2) then Some None else output_value t (e_op e) in
        match value with
        | None => R404
        | Some v =>
          let kids := children_of t s in
          RInscription e
            (N.land (if k =? 2 then N.lor (e_charms e) LOST_FLAG else e_charms e) CHARM_MASK)
            (len kids) (firstN 4 kids)
            (match entry_of t (s + 1) with Some n => Some (e_seq n) | None => None end)
            (firstN 4 (e_parents e))
            (if s =? 0 then None else Some (s - 1)) v
        end
      end
    end.

  (* Index::inscriptions_on_output: stored pairs sorted by sequence number *)
  Fixpoint insert_sorted (x : N) (l : list N) : list N :=
    match l with
    | [] => [x]
    | y :: r => if x <=? y then x :: l else y :: insert_sorted x r
    end.
  Definition sort_N (l : list N) : list N := fold_right insert_sorted [] l.
  Definition inscriptions_on_output (x : opinfo) : list N :=
    match o_utxo x with Some (_, ins) => sort_N (map fst ins) | None => [] end.

  (* Server::output (JSON): inscriptions and value *)
  Definition output_json (t : tables) (o : N) : reply :=
    match op_of t o with
    | None => R404
    | Some x =>
      if negb (o_kind x =? 0) then ROutput (Some (inscriptions_on_output x)) 0
      else match o_value x with
           | None => R404
           | Some v => ROutput (Some (inscriptions_on_output x)) v
           end
    end.

  (* Server::outputs_address: classification of an output by what it holds; an output holding both
     inscriptions and runes is listed under `inscribed` and under `runic` *)
  Definition holds_inscriptions (t : tables) (o : N) : bool :=
    match op_of t o with Some x => negb (is_nil (inscriptions_on_output x)) | None => false end.
  Definition holds_runes (h : holdings) (o : N) : bool := negb (is_nil (rune_balances h o)).
  Definition in_class (t : tables) (h : holdings) (ty : otype) (o : N) : bool :=
    match ty with
    | TAny => true
    | TCardinal => andb (negb (holds_inscriptions t o)) (negb (holds_runes h o))
    | TInscribed => holds_inscriptions t o
    | TRunic => holds_runes h o
    end.
  Definition class_list (t : tables) (h : holdings) (a : N) (ty : otype) : list N :=
    filter (in_class t h ty) (address_ops h a).

  (* Index::get_output_info for every listed output; a missing transaction is a 404 *)
  Fixpoint output_views (t : tables) (h : holdings) (os : list N)
    : option (list (N * (option (list N) * (N * option (list (N * N)))))) :=
    match os with
    | [] => Some []
    | o :: r =>
      match output_json t o, output_views t h r with
      | ROutput ins v, Some vs => Some ((o, (ins, (v, runes_view h o))) :: vs)
      | _, _ => None
      end
    end.

  (* [ty] = None: a `type` value the route does not accept (query extractor rejection) *)
  Definition outputs_address (t : tables) (h : holdings) (a : N) (ty : option otype) : reply :=
    match ty with
    | None => R400
    | Some ty =>
      if negb (h_index h) then R404 else
      match output_views t h (class_list t h a ty) with
      | Some vs => ROutputs vs
      | None => R404
      end
    end.

  (* /output/<outpoint> and /r/utxo/<outpoint> with the `runes` field *)
  Definition with_runes (h : holdings) (o : N) (r : reply) : reply :=
    match r with ROutput ins v => ROutputR ins v (runes_view h o) | _ => r end.

  (* r::utxo *)
  Definition utxo_json (t : tables) (o : N) : reply :=
    match op_of t o with
    | None => R404
    | Some x => match o_utxo x with
                | None => R404
                | Some (v, _) => ROutput (Some (inscriptions_on_output x)) v
                end
    end.

  (* Server::sat (JSON): inscriptions, satpoint; the address look-up fails on the null outpoint
     in the pinned commit *)
  Definition sat_json (t : tables) (sat : N) : reply :=
    let ins := on_sat t sat in
    let sp := match assoc_N sat (t_satpoints t) with
              | Some p => Some p
              | None => match ins with
                        | [] => None
                        | s :: _ => match entry_of t s with Some e => Some (e_op e, e_off e) | None => None end
                        end
              end in
    match sp with
    | Some (o, _) => if andb (negb fixed) (op_kind t o =? 2) then R500 else RSat ins sp
    | None => RSat ins sp
    end.
End Api.

(* ------------------------------------------------------------------ wire entry point *)

Fixpoint rd_list (n : nat) (l : list Z) : list N * list Z :=
  match n with
  | O => ([], l)
  | S k => match l with
           | [] => ([], [])
           | x :: r => let '(xs, r') := rd_list k r in (nZ x :: xs, r')
           end
  end.

Definition rd_optN (l : list Z) : option N * list Z :=
  match l with
  | 0%Z :: r => (None, r)
  | _ :: v :: r => (Some (nZ v), r)
  | _ => (None, [])
  end.

Fixpoint rd_entries (n : nat) (l : list Z) : list entry * list Z :=
  match n with
  | O => ([], l)
  | S k =>
    match l with
    | seq :: num :: r0 =>
      let '(sat, r1) := rd_optN r0 in
      match r1 with
      | ch :: fee :: h :: ts :: op :: off :: np :: r2 =>
        let '(ps, r3) := rd_list (Z.to_nat np) r2 in
        let '(es, r4) := rd_entries k r3 in
        (mkE (nZ seq) num sat (nZ ch) (nZ fee) (nZ h) (nZ ts) (nZ op) (nZ off) ps :: es, r4)
      | _ => ([], [])
      end
    | _ => ([], [])
    end
  end.

Fixpoint rd_multi (n : nat) (l : list Z) : list (N * list N) * list Z :=
  match n with
  | O => ([], l)
  | S k =>
    match l with
    | key :: cnt :: r0 =>
      let '(xs, r1) := rd_list (Z.to_nat cnt) r0 in
      let '(ms, r2) := rd_multi k r1 in ((nZ key, xs) :: ms, r2)
    | _ => ([], [])
    end
  end.

Fixpoint rd_pairs (n : nat) (l : list Z) : list (N * N) * list Z :=
  match n with
  | O => ([], l)
  | S k =>
    match l with
    | a :: c :: r => let '(ps, r') := rd_pairs k r in ((nZ a, nZ c) :: ps, r')
    | _ => ([], [])
    end
  end.

Fixpoint rd_ops (n : nat) (l : list Z) : list opinfo * list Z :=
  match n with
  | O => ([], l)
  | S k =>
    match l with
    | kind :: r0 =>
      let '(v, r1) := rd_optN r0 in
      let '(u, r2) := match r1 with
                      | 0%Z :: r => (None, r)
                      | _ :: tv :: cnt :: r =>
                        let '(ps, r') := rd_pairs (Z.to_nat cnt) r in (Some (nZ tv, ps), r')
                      | _ => (None, [])
                      end in
      let '(os, r3) := rd_ops k r2 in (mkO (nZ kind) v u :: os, r3)
    | _ => ([], [])
    end
  end.

Fixpoint rd_triples (n : nat) (l : list Z) : list (N * (N * N)) * list Z :=
  match n with
  | O => ([], l)
  | S k =>
    match l with
    | a :: c :: d :: r => let '(ps, r') := rd_triples k r in ((nZ a, (nZ c, nZ d)) :: ps, r')
    | _ => ([], [])
    end
  end.

Definition rd_tables (l : list Z) : tables * list Z :=
  match l with
  | isats :: ne :: r0 =>
    let '(es, r1) := rd_entries (Z.to_nat ne) r0 in
    match r1 with
    | nc :: r2 =>
      let '(ch, r3) := rd_multi (Z.to_nat nc) r2 in
      match r3 with
      | ns :: r4 =>
        let '(ss, r5) := rd_multi (Z.to_nat ns) r4 in
        match r5 with
        | nh :: r6 =>
          let '(hs, r7) := rd_pairs (Z.to_nat nh) r6 in
          match r7 with
          | nop :: r8 =>
            let '(os, r9) := rd_ops (Z.to_nat nop) r8 in
            match r9 with
            | nsp :: r10 =>
              let '(sps, r11) := rd_triples (Z.to_nat nsp) r10 in
              (mkT (negb (isats =? 0)%Z) es ch ss hs os sps, r11)
            | _ => (mkT false [] [] [] [] [] [], [])
            end
          | _ => (mkT false [] [] [] [] [] [], [])
          end
        | _ => (mkT false [] [] [] [] [] [], [])
        end
      | _ => (mkT false [] [] [] [] [] [], [])
      end
    | _ => (mkT false [] [] [] [] [] [], [])
    end
  | _ => (mkT false [] [] [] [] [] [], [])
  end.

Definition wr_optN (o : option N) : list Z := match o with None => [0%Z] | Some v => [1%Z; zN v] end.
Definition wr_ids (l : list N) : list Z := zN (len l) :: zs l.
Definition wr_rel (e : entry) : list Z :=
  [zN (N.land (e_charms e) CHARM_MASK); zN (e_fee e); zN (e_height e); zN (e_seq e); e_number e; zN (e_op e)] ++
  wr_optN (e_sat e) ++ [zN (e_op e); zN (e_off e); zN (e_ts e)].

Definition wr_runes (rs : option (list (N * N))) : list Z :=
  match rs with
  | None => [0%Z]
  | Some l => 1%Z :: zN (len l) :: flat_map (fun p => [zN (fst p); zN (snd p)]) l
  end.

Fixpoint rd_lists (n : nat) (l : list Z) : list (list N) * list Z :=
  match n with
  | O => ([], l)
  | S k =>
    match l with
    | cnt :: r0 => let '(xs, r1) := rd_list (Z.to_nat cnt) r0 in
                   let '(ls, r2) := rd_lists k r1 in (xs :: ls, r2)
    | _ => ([], [])
    end
  end.

Fixpoint rd_balances (n : nat) (l : list Z) : list (N * list (N * N)) * list Z :=
  match n with
  | O => ([], l)
  | S k =>
    match l with
    | o :: cnt :: r0 => let '(ps, r1) := rd_pairs (Z.to_nat cnt) r0 in
                        let '(bs, r2) := rd_balances k r1 in ((nZ o, ps) :: bs, r2)
    | _ => ([], [])
    end
  end.

Definition rd_holdings (l : list Z) : holdings * list Z :=
  match l with
  | ix :: na :: r0 =>
    let '(ads, r1) := rd_lists (Z.to_nat na) r0 in
    match r1 with
    | nb :: r2 => let '(bs, r3) := rd_balances (Z.to_nat nb) r2 in (mkH (negb (ix =? 0)%Z) ads bs, r3)
    | _ => (mkH false [] [], [])
    end
  | _ => (mkH false [] [], [])
  end.

Definition otype_of_code (c : Z) : option otype :=
  match c with
  | 0%Z | 1%Z => Some TAny
  | 2%Z => Some TCardinal
  | 3%Z => Some TInscribed
  | 4%Z => Some TRunic
  | _ => None
  end.

Definition wr_reply (r : reply) : list Z :=
  match r with
  | R400 => [400%Z] | R404 => [404%Z] | R500 => [500%Z] | RPanic => [(-2)%Z]
  | RPage ids m pg => 200%Z :: wr_ids ids ++ [zb m; zN pg]
  | RRelPage es m pg => 200%Z :: zN (len es) :: flat_map wr_rel es ++ [zb m; zN pg]
  | ROptId o => 200%Z :: wr_optN o
  | RRel e v => 200%Z :: wr_rel e ++ wr_optN v
  | RInscription e ch cc kids next ps prev v =>
    200%Z :: zN ch :: zN cc :: wr_ids kids ++ [zN (e_fee e); zN (e_height e); zN (e_seq e)] ++ wr_optN next ++
    [e_number e] ++ wr_ids ps ++ wr_optN prev ++ wr_optN (e_sat e) ++ [zN (e_op e); zN (e_off e); zN (e_ts e)] ++ wr_optN v
  | ROutput ins v => 200%Z :: match ins with Some l => 1%Z :: wr_ids l | None => [0%Z] end ++ [zN v]
  | ROutputR ins v rs => 200%Z :: match ins with Some l => 1%Z :: wr_ids l | None => [0%Z] end ++ [zN v] ++ wr_runes rs
  | ROutputs l =>
    200%Z :: zN (len l) ::
    flat_map (fun x => let '(o, (ins, (v, rs))) := x in
                       zN o :: match ins with Some l => 1%Z :: wr_ids l | None => [0%Z] end ++ [zN v] ++ wr_runes rs) l
  | RSat ins sp => 200%Z :: wr_ids ins ++ match sp with Some (o, off) => [1%Z; zN o; zN off] | None => [0%Z] end
  end.

Definition run_C18 (inp : list Z) : list Z :=
  match inp with
  | _seed :: _isats :: _nchildren :: _nplain :: r0 =>
    let '(t, r1') := rd_tables r0 in
    let '(h, r1) := rd_holdings r1' in
    match r1 with
    | op :: a :: r2 =>
      let pg := match r2 with hp :: p :: _ => if (hp =? 0)%Z then 0 else nZ p | _ => 0 end in
      let second := match r2 with x :: _ => x | [] => 0%Z end in
      wr_reply
        (match op with
         | 1%Z => children_page true t PAGE (nZ a) pg
         | 2%Z => children_inscriptions true t (nZ a) pg
         | 3%Z => parents_page true t (nZ a) pg
         | 4%Z => parent_inscriptions true t (nZ a) pg
         | 5%Z => sat_page t (nZ a) pg
         | 6%Z => sat_at t (nZ a) second
         | 7%Z => r_inscription true t (nZ a)
         | 8%Z => block_page t (nZ a) pg
         | 9%Z => inscription_json t (if (second =? 0)%Z then Some (nZ a) else number_to_seq t a)
         | 10%Z => with_runes h (nZ a) (output_json t (nZ a))
         | 13%Z => with_runes h (nZ a) (utxo_json t (nZ a))
         | 14%Z => outputs_address t h (nZ a) (otype_of_code second)
         | 11%Z => sat_json true t (nZ a)
         | 12%Z => children_page true t SERVER_PAGE_SIZE (nZ a) pg
         | _ => utxo_json t (nZ a)
         end)
    | _ => [(-1)%Z]
    end
  | _ => [(-1)%Z]
  end.
