(* Model of src/settings.rs: Settings::{or, from_options, from_env, or_defaults, merge}.
   The per-field tables (combinator of `or`, what `from_options` / `from_env` set, what
   `or_defaults` does, the order of the sources in `merge`, the order of the chain switches)
   are NOT written here: they are translated from the Rust source into Generated.v
   (tools/gen_sections.d/50_storage.py), so a changed combinator changes the model.

   A field value carries an option slot, a boolean slot and a set slot; a field uses the slot of
   its kind (SETTINGS_KIND) and the combinators act on that slot. Values are identifiers:
   numbers are themselves, strings / paths are numbered by the harness (0 = derived default),
   chains are 0 mainnet 1 regtest 2 signet 3 testnet 4 testnet4, hidden inscriptions 1..6. *)
From OrdV Require Import Base.Prelude Base.Wire Generated.

Definition fval := (option N * bool * list N)%type.
Definition fempty : fval := (None, false, []).
Definition f_opt (v : fval) : option N := fst (fst v).
Definition f_bool (v : fval) : bool := snd (fst v).
Definition f_set (v : fval) : list N := snd v.
Definition settings := list fval.

Definition or_opt (a b : option N) : option N := match a with Some _ => a | None => b end.

(* one line of `Settings::or`, by combinator code *)
Definition or_field (code : N) (self source : fval) : fval :=
  let '(so, sb, ss) := self in
  let '(uo, ub, us) := source in
  match code with
  | 0 => (or_opt so uo, sb, ss)          (* self.x.or(source.x) *)
  | 1 => (so, sb || ub, ss)              (* self.x || source.x *)
  | 2 => (so, sb, ss ++ us)              (* union of both sets *)
  | 3 => (or_opt uo so, sb, ss)          (* source.x.or(self.x) *)
  | 6 => source                          (* source.x *)
  | 7 => (so, sb && ub, ss)              (* && *)
  | _ => self                            (* self.x *)
  end.

Fixpoint map3 {A B C D} (f : A -> B -> C -> D) (a : list A) (b : list B) (c : list C) : list D :=
  match a, b, c with
  | x :: a', y :: b', z :: c' => f x y z :: map3 f a' b' c'
  | _, _, _ => []
  end.

Fixpoint map2 {A B C} (f : A -> B -> C) (a : list A) (b : list B) : list C :=
  match a, b with
  | x :: a', y :: b' => f x y :: map2 f a' b'
  | _, _ => []
  end.

Definition settings_or (self source : settings) : settings := map3 or_field SETTINGS_OR self source.

(* options.signet.then_some(Chain::Signet).or(options.regtest.then_some(..)) ... in source order *)
Fixpoint chain_of_flags (tbl : list (N * N)) (fl : list bool) : option N :=
  match tbl with
  | [] => None
  | (k, ch) :: r => if nth (N.to_nat k) fl false then Some ch else chain_of_flags r fl
  end.

Definition from_options_field (fl : list bool) (code : N) (v : fval) : fval :=
  match code with
  | 1 => v
  | 2 => (or_opt (chain_of_flags SETTINGS_CHAIN_FLAGS fl) (f_opt v), false, [])
  | _ => fempty
  end.

(* [fl] = the switches signet, regtest, testnet, testnet4; [flags] = one value per field as given
   on the command line (the chain field holds --chain) *)
Definition from_options (fl : list bool) (flags : settings) : settings :=
  map2 (from_options_field fl) SETTINGS_FROM_OPTIONS flags.

Definition mask_ids (v : N) : list N :=
  flat_map (fun i => if N.testbit v (i - 1) then [i] else []) [1; 2; 3; 4; 5; 6].

(* environment: per field absent, or present with a payload (booleans: 0 = empty string) *)
Definition from_env_field (code : N) (raw : option N) : fval :=
  match raw with
  | None => fempty
  | Some v =>
    match code with
    | 1 => (Some v, false, [])
    | 2 => (None, negb (v =? 0), [])
    | 3 => (None, false, mask_ids v)
    | _ => fempty
    end
  end.

Definition from_env (env : list (option N)) : settings := map2 from_env_field SETTINGS_FROM_ENV env.

Definition default_field (kind const : N) (v : fval) : fval :=
  let '(o, b, s) := v in
  match kind with
  | 1 => (Some (match o with Some x => x | None => const end), b, s)
  | 2 => (None, b, s)
  | 3 => (Some (match o with Some x => x | None => 0 end), b, s)
  | _ => v
  end.

Definition or_defaults (s : settings) : settings :=
  map3 default_field SETTINGS_DEFAULT_KIND SETTINGS_DEFAULT_CONST s.

Definition source_of (k : N) (o e c : settings) : settings :=
  match k with 0 => o | 1 => e | _ => c end.

(* Settings::from_options(options).or(Settings::from_env(env)?) ... .or(config) *)
Definition merge_sources (o e c : settings) : settings :=
  match SETTINGS_MERGE_ORDER with
  | [x; y; z] => settings_or (settings_or (source_of x o e c) (source_of y o e c)) (source_of z o e c)
  | _ => []
  end.

Definition field (s : settings) (i : N) : fval := nth (N.to_nat i) s fempty.

(* (None, Some(_)) => bail!(..username..), (Some(_), None) => bail!(..password..) *)
Definition check_pair (s : settings) (user pass : N) (e1 e2 : N) : option N :=
  match f_opt (field s user), f_opt (field s pass) with
  | None, Some _ => Some e1
  | Some _, None => Some e2
  | _, _ => None
  end.

Definition merge (fl : list bool) (flags : settings) (env : list (option N)) (config : settings) : Res settings :=
  let s := or_defaults (merge_sources (from_options fl flags) (from_env env) config) in
  match check_pair s SETTINGS_F_bitcoin_rpc_username SETTINGS_F_bitcoin_rpc_password 1 2 with
  | Some e => Err e
  | None =>
    match check_pair s SETTINGS_F_server_username SETTINGS_F_server_password 3 4 with
    | Some e => Err e
    | None => Ok s
    end
  end.

(* which config file `merge` reads: --config / ORD_CONFIG, else ord.yaml in config_dir, else in
   data_dir (flag before environment for each), else in the default data dir; an explicit
   config file must exist (error 5), an ord.yaml need not. Inputs: the six option values and
   the set of location ids at which a file exists; output: id of the file read (0 = none). *)
Definition config_location (cf ce cdf cde ddf dde : option N) (default_dir : N) (exists_at : N -> bool) : Res N :=
  match or_opt cf ce with
  | Some p => if exists_at p then Ok p else Err 5
  | None =>
    let dir := match or_opt (or_opt cdf cde) (or_opt ddf dde) with Some d => d | None => default_dir end in
    if exists_at dir then Ok dir else Ok 0
  end.

(* ---------- wire ---------- *)
(* per field two integers (present, value) *)
Definition decode_field (kind : N) (p v : Z) : fval :=
  if Z.eqb p 0 then fempty else
  match kind with
  | 0 => (Some (nZ v), false, [])
  | 1 => (None, true, [])
  | _ => (None, false, mask_ids (nZ v))
  end.

Fixpoint decode_settings (kinds : list N) (l : list Z) : settings * list Z :=
  match kinds with
  | [] => ([], l)
  | k :: ks =>
    match l with
    | p :: v :: r => let '(s, r') := decode_settings ks r in (decode_field k p v :: s, r')
    | _ => ([], [])
    end
  end.

Fixpoint decode_env (n : nat) (l : list Z) : list (option N) * list Z :=
  match n with
  | O => ([], l)
  | S n' =>
    match l with
    | p :: v :: r => let '(s, r') := decode_env n' r in ((if Z.eqb p 0 then None else Some (nZ v)) :: s, r')
    | _ => ([], [])
    end
  end.

Definition set_mask (s : list N) : N :=
  fold_right (fun i acc => if existsb (N.eqb i) s then N.lor acc (N.shiftl 1 (i - 1)) else acc) 0 [1; 2; 3; 4; 5; 6].

Definition encode_field (kind : N) (v : fval) : list Z :=
  match kind with
  | 0 => write_opt (f_opt v)
  | 1 => [zb (f_bool v)]
  | _ => [zN (set_mask (f_set v))]
  end.

Definition encode_settings (s : settings) : list Z :=
  flat_map (fun kv : N * fval => encode_field (fst kv) (snd kv)) (combine SETTINGS_KIND s).

Definition zbool (z : Z) : bool := negb (Z.eqb z 0).

Definition rd_opt (l : list Z) : option N * list Z := read_opt l.

(* 0 s r t t4 FLAGS(27x2) ENV(27x2) CONFIG(27x2)  ->  0 fields.. | 1 err
   1 cf ce cdf cde ddf dde (opts) default_dir nexists ids..  ->  0 id | 1 err *)
Definition run_C36 (inp : list Z) : list Z :=
  match inp with
  | 0%Z :: s :: r :: t :: t4 :: rest =>
    let '(flags, rest1) := decode_settings SETTINGS_KIND rest in
    let '(env, rest2) := decode_env (N.to_nat SETTINGS_FIELD_COUNT) rest1 in
    let '(config, _) := decode_settings SETTINGS_KIND rest2 in
    match merge [zbool s; zbool r; zbool t; zbool t4] flags env config with
    | Ok st => 0%Z :: encode_settings st
    | Err e => [1%Z; zN e]
    | Panic _ => [(-2)%Z]
    end
  | 1%Z :: rest =>
    let '(cf, l1) := rd_opt rest in
    let '(ce, l2) := rd_opt l1 in
    let '(cdf, l3) := rd_opt l2 in
    let '(cde, l4) := rd_opt l3 in
    let '(ddf, l5) := rd_opt l4 in
    let '(dde, l6) := rd_opt l5 in
    match l6 with
    | dflt :: ex =>
      let '(ids, _) := read_lp ex in
      match config_location cf ce cdf cde ddf dde (nZ dflt) (fun i => existsb (N.eqb i) ids) with
      | Ok i => [0%Z; zN i]
      | Err e => [1%Z; zN e]
      | Panic _ => [(-2)%Z]
      end
    | _ => [(-1)%Z]
    end
  | _ => [(-1)%Z]
  end.
