(* Model of the content-serving decision of the explorer server:
     src/subcommand/server/r.rs      content, content_inner, content_response, undelegated_content,
                                     sat_at_index_content
     src/subcommand/server.rs        preview (all branches), the global
                                     SetResponseHeaderLayer::if_not_present(CONTENT_SECURITY_POLICY) layer
     src/subcommand/server/server_config.rs  preview_content_security_policy
     src/subcommand/server/accept_encoding.rs AcceptEncoding extraction and is_acceptable
     src/subcommand/server/error.rs  status / headers of ServerError
     src/inscriptions/inscription.rs content_type, content_encoding, media (delegate is taken parsed)
     src/inscriptions/media.rs       Media::from_str (table in Generated.v)
     src/index.rs                    get_inscription_id_by_sat_indexed (signed index on a sat)

   Not modelled (trusted, exercised by the correspondence runs): HTTP framing (optional blanks around
   header values are trimmed by the wire, see [ows_trim] in the wire entry point only), axum path
   extraction (a request whose path parameters do not parse is [PBadRequest]), the transparent
   tower-http CompressionLayer (undone by the harness), brotli ([decompress] is a Section variable,
   no law assumed), the text of error messages and the HTML of the preview templates (a template is
   represented by the inscription ids it mentions).

   [w_fixed] selects the code after commit "fix: do not serve the content of a hidden inscription
   through a delegating inscription" (true) or the pinned commit a57bfc1 (false). *)
From OrdV Require Import Base.Prelude Base.Wire Generated.

Definition bytes := list N.

(* ------------------------------------------------------------------ byte strings *)

Fixpoint bytes_eqb (a b : bytes) : bool :=
  match a, b with
  | [], [] => true
  | x :: a', y :: b' => andb (N.eqb x y) (bytes_eqb a' b')
  | _, _ => false
  end.

Fixpoint is_prefix (p s : bytes) : bool :=
  match p, s with
  | [], _ => true
  | x :: p', y :: s' => andb (N.eqb x y) (is_prefix p' s')
  | _ :: _, [] => false
  end.

(* str::replace(pat, rep) for a non-empty pattern: leftmost non-overlapping matches *)
Fixpoint replace_fuel (fuel : nat) (pat rep s : bytes) : bytes :=
  match fuel with
  | O => s
  | S f =>
    match s with
    | [] => []
    | c :: t =>
      if is_prefix pat s then rep ++ replace_fuel f pat rep (skipn (length pat) s)
      else c :: replace_fuel f pat rep t
    end
  end.
Definition replace_all (pat rep s : bytes) : bytes := replace_fuel (S (length s)) pat rep s.

(* str::split(c): never empty, "" -> [""] *)
Fixpoint split_on (c : N) (s : bytes) : list bytes :=
  match s with
  | [] => [[]]
  | x :: t =>
    match split_on c t with
    | [] => [[]]                      (* unreachable *)
    | h :: r => if N.eqb x c then [] :: h :: r else (x :: h) :: r
    end
  end.

Definition is_blank (b : N) : bool := orb (N.eqb b 32) (N.eqb b 9).
Fixpoint drop_blanks (s : bytes) : bytes :=
  match s with
  | [] => []
  | x :: t => if is_blank x then drop_blanks t else s
  end.
(* str::trim on a string of visible ASCII + tab (the only strings it is applied to here),
   and the trimming of optional whitespace around header values by HTTP/1.1 parsers *)
Definition trim (s : bytes) : bytes := rev (drop_blanks (rev (drop_blanks s))).
Definition ows_trim := trim.

(* format!("...{origin}...") : segments joined by the origin *)
Fixpoint join_segments (sep : bytes) (segs : list bytes) : bytes :=
  match segs with
  | [] => []
  | [s] => s
  | s :: r => s ++ sep ++ join_segments sep r
  end.

(* http::HeaderValue::from_str / from_bytes: b >= 32 && b != 127 || b == '\t' *)
Definition hv_byte (b : N) : bool :=
  orb (andb (andb (32 <=? b) (negb (b =? 127))) (b <? 256)) (b =? 9).
Definition header_value_ok (s : bytes) : bool := forallb hv_byte s.

(* http::HeaderValue::to_str: visible ASCII or tab *)
Definition visible_ascii (b : N) : bool := orb (andb (32 <=? b) (b <? 127)) (b =? 9).

(* core::str::from_utf8 accepts exactly well-formed UTF-8 (Unicode table 3-7) *)
Definition in_range (lo hi b : N) : bool := andb (lo <=? b) (b <=? hi).
Definition cont (b : N) : bool := in_range 128 191 b.
Fixpoint utf8_valid (s : bytes) : bool :=
  match s with
  | [] => true
  | b0 :: r0 =>
    if b0 <? 128 then utf8_valid r0
    else match r0 with
    | [] => false
    | b1 :: r1 =>
      if in_range 194 223 b0 then andb (cont b1) (utf8_valid r1)
      else match r1 with
      | [] => false
      | b2 :: r2 =>
        if b0 =? 224 then andb (andb (in_range 160 191 b1) (cont b2)) (utf8_valid r2)
        else if orb (in_range 225 236 b0) (in_range 238 239 b0) then andb (andb (cont b1) (cont b2)) (utf8_valid r2)
        else if b0 =? 237 then andb (andb (in_range 128 159 b1) (cont b2)) (utf8_valid r2)
        else match r2 with
        | [] => false
        | b3 :: r3 =>
          if b0 =? 240 then andb (andb (andb (in_range 144 191 b1) (cont b2)) (cont b3)) (utf8_valid r3)
          else if in_range 241 243 b0 then andb (andb (andb (cont b1) (cont b2)) (cont b3)) (utf8_valid r3)
          else if b0 =? 244 then andb (andb (andb (in_range 128 143 b1) (cont b2)) (cont b3)) (utf8_valid r3)
          else false
        end
      end
    end
  end.

(* ------------------------------------------------------------------ inscriptions *)

Record insc := mkInsc {
  i_body : option bytes;
  i_ctype : option bytes;      (* raw content-type field *)
  i_cenc : option bytes;       (* raw content-encoding field *)
  i_delegate : option N        (* Inscription::delegate(): parsed delegate id *)
}.

(* Inscription::content_type: str::from_utf8(..).ok() *)
Definition content_type_str (i : insc) : option bytes :=
  match i_ctype i with
  | Some b => if utf8_valid b then Some b else None
  | None => None
  end.

(* content_type().and_then(|t| t.parse().ok()).unwrap_or("application/octet-stream") *)
Definition content_type_header (i : insc) : bytes :=
  match content_type_str i with
  | Some s => if header_value_ok s then s else DEFAULT_CONTENT_TYPE
  | None => DEFAULT_CONTENT_TYPE
  end.

(* Inscription::content_encoding: HeaderValue::from_str(from_utf8(..).unwrap_or_default()).ok() *)
Definition content_encoding_hv (i : insc) : option bytes :=
  match i_cenc i with
  | None => None
  | Some b => let s := if utf8_valid b then b else [] in
              if header_value_ok s then Some s else None
  end.

Fixpoint assoc_bytes {A} (k : bytes) (t : list (bytes * A)) : option A :=
  match t with
  | [] => None
  | (k', v) :: r => if bytes_eqb k' k then Some v else assoc_bytes k r
  end.

Fixpoint assoc_N {A} (k : N) (t : list (N * A)) : option A :=
  match t with
  | [] => None
  | (k', v) :: r => if N.eqb k' k then Some v else assoc_N k r
  end.

(* Inscription::media *)
Definition media (i : insc) : N :=
  match i_body i with
  | None => MEDIA_UNKNOWN
  | Some _ =>
    match content_type_str i with
    | None => MEDIA_UNKNOWN
    | Some s => match assoc_bytes s MEDIA_TABLE with Some m => m | None => MEDIA_UNKNOWN end
    end
  end.

(* ------------------------------------------------------------------ Accept-Encoding *)

(* AcceptEncoding extractor: header absent -> None; value.to_str().unwrap_or_default() *)
Definition accept_encoding_of (hdr : option bytes) : option bytes :=
  match hdr with
  | None => None
  | Some v => Some (if forallb visible_ascii v then v else [])
  end.

Fixpoint before (c : N) (s : bytes) : bytes :=
  match s with
  | [] => []
  | x :: t => if N.eqb x c then [] else x :: before c t
  end.

(* AcceptEncoding::is_acceptable *)
Definition is_acceptable (ae : option bytes) (enc : bytes) : bool :=
  if forallb visible_ascii enc then
    existsb (fun item => bytes_eqb (trim (before 59 item)) enc)
            (split_on 44 (match ae with Some s => s | None => [] end))
  else false.

(* ------------------------------------------------------------------ responses *)

Inductive cache := CNone | CImmutable | CNoStore.

Inductive body :=
| BError                                   (* plain-text error message, never inscription data *)
| BTemplate (refs : list N)                (* HTML preview template mentioning these inscription ids *)
| BStored (src : N) (b : bytes)            (* the stored body of inscription [src], unchanged *)
| BDecompressed (src : N) (b : bytes).     (* brotli decompression of the stored body of [src] *)

Record response := mkResp {
  status : N;
  csp : list bytes;            (* Content-Security-Policy header values, in order *)
  r_cache : cache;
  r_ctype : option bytes;      (* only tracked for content responses *)
  r_cenc : option bytes;
  r_body : body
}.

Definition body_source (r : response) : option N :=
  match r_body r with
  | BStored s _ | BDecompressed s _ => Some s
  | _ => None
  end.

(* ServerError::into_response and friends; [csp] = [] means "not set by the handler" *)
Definition bad_request : response := mkResp 400 [] CNone None None BError.
Definition not_found : response := mkResp 404 [] CNoStore None None BError.      (* cache-control: no-store *)
Definition plain_not_found : response := mkResp 404 [] CNone None None BError.   (* fallback: bare StatusCode *)
Definition not_acceptable : response := mkResp 406 [] CNone None None BError.
Definition internal_error : response := mkResp 500 [] CNone None None BError.
(* PreviewUnknownHtml.into_response() *)
Definition unknown_page : response := mkResp 200 [] CNone None None (BTemplate []).

Record world := mkWorld {
  w_insc : N -> option insc;      (* Index::get_inscription_by_id *)
  w_on_sat : N -> list N;         (* SAT_TO_SEQUENCE_NUMBER as inscription ids, in sequence order *)
  w_index_sats : bool;            (* Index::has_sat_index *)
  w_hidden : N -> bool;           (* Settings::is_hidden *)
  w_origin : option bytes;        (* ServerConfig::csp_origin *)
  w_decompress : bool;            (* ServerConfig::decompress *)
  w_fixed : bool
}.

Inductive request_path :=
| PContent (id : N)               (* /content/<id> *)
| PUndelegated (id : N)           (* /r/undelegated-content/<id> *)
| PPreview (id : N)               (* /preview/<id> *)
| PSatAt (sat : N) (idx : Z)      (* /r/sat/<sat>/at/<idx>/content *)
| PBadRequest                     (* a content route whose path parameters do not parse *)
| PNoRoute.                       (* no route: Server::fallback with an unrecognised path *)

Definition len {A} (l : list A) : N := N.of_nat (length l).

(* Index::get_inscription_id_by_sat_indexed: nth / nth_back((i+1).abs_diff(0)) *)
Definition nth_signed {A} (l : list A) (i : Z) : option A :=
  if (i <? 0)%Z then
    let k := Z.to_N (- (i + 1)) in
    if k <? len l then nth_error l (N.to_nat (len l - 1 - k)) else None
  else if Z.to_N i <? len l then nth_error l (Z.to_nat i) else None.   (* guard: no huge unary numbers *)

Definition ISIZE_MIN : Z := (- 9223372036854775808)%Z.
Definition ISIZE_MAX : Z := 9223372036854775807%Z.

Section Content.
  (* brotli::Decompressor(body).read_to_end: None = error *)
  Variable decompress : bytes -> option bytes.

  (* the CSP headers of content_response; None = HeaderValue::from_str(&csp) failed *)
  Definition content_csp (origin : option bytes) : option (list bytes) :=
    match origin with
    | None => Some [CSP_CONTENT_SELF; CSP_CONTENT_STAR]
    | Some o => let v := join_segments o CSP_ORIGIN_SEGMENTS in
                if header_value_ok v then Some [v] else None
    end.

  (* content_response followed by the caller's .ok_or_not_found(..).into_response() *)
  Definition content_response (w : world) (src : N) (i : insc) (ae : option bytes) (cacheb : bool) : response :=
    match content_csp (w_origin w) with
    | None => internal_error
    | Some pol =>
      let cc := if cacheb then CImmutable else CNoStore in
      let ct := Some (content_type_header i) in
      match content_encoding_hv i with
      | Some enc =>
        if is_acceptable ae enc then
          match i_body i with
          | None => not_found
          | Some b => mkResp 200 pol cc ct (Some enc) (BStored src b)
          end
        else if andb (w_decompress w) (bytes_eqb enc BROTLI) then
          match i_body i with
          | None => not_found
          | Some b =>
            match decompress b with
            | Some d => mkResp 200 pol cc ct None (BDecompressed src d)
            | None => internal_error
            end
          end
        else not_acceptable
      | None =>
        match i_body i with
        | None => not_found
        | Some b => mkResp 200 pol cc ct None (BStored src b)
        end
      end
    end.

  (* delegate resolution shared by content_inner and preview; the hidden test on the
     resolved delegate is the repair *)
  Inductive resolved := RHidden | RMissing | RFound (src : N) (i : insc).
  Definition resolve (w : world) (id : N) : resolved :=
    if w_hidden w id then RHidden else
    match w_insc w id with
    | None => RMissing
    | Some i =>
      match i_delegate i with
      | None => RFound id i
      | Some d =>
        if andb (w_fixed w) (w_hidden w d) then RHidden else
        match w_insc w d with
        | None => RMissing
        | Some di => RFound d di
        end
      end
    end.

  Definition content_inner (w : world) (id : N) (ae : option bytes) (cacheb : bool) : response :=
    match resolve w id with
    | RHidden => unknown_page
    | RMissing => not_found
    | RFound src i => content_response w src i ae cacheb
    end.

  Definition undelegated_content (w : world) (id : N) (ae : option bytes) : response :=
    if w_hidden w id then unknown_page else
    match w_insc w id with
    | None => not_found
    | Some i => content_response w id i ae true
    end.

  Definition sat_at_index_content (w : world) (sat : N) (idx : Z) (ae : option bytes) : response :=
    if orb (idx <? ISIZE_MIN)%Z (ISIZE_MAX <? idx)%Z then bad_request else
    if negb (w_index_sats w) then not_found else
    match nth_signed (w_on_sat w sat) idx with
    | None => not_found
    | Some id => content_inner w id ae (0 <=? idx)%Z
    end.

  (* ServerConfig::preview_content_security_policy for a non-iframe media kind *)
  Definition preview_csp (w : world) (m : N) : option bytes :=
    match assoc_N m PREVIEW_CSP with
    | None => None                       (* Media::Iframe: Err(..) -> 500 *)
    | Some dflt =>
      match w_origin w with
      | None => Some dflt
      | Some o => let v := replace_all CSP_SELF_TOKEN o dflt in
                  if header_value_ok v then Some v else None
      end
    end.

  Definition preview (w : world) (id : N) (ae : option bytes) : response :=
    match resolve w id with
    | RHidden => unknown_page
    | RMissing => not_found
    | RFound src i =>
      let m := media i in
      if m =? MEDIA_IFRAME then content_response w src i ae true
      else match preview_csp w m with
           | None => internal_error
           | Some v => mkResp 200 [v] CNone None None (BTemplate (if m =? MEDIA_UNKNOWN then [] else [id]))
           end
    end.

  Definition handler (w : world) (p : request_path) (ae : option bytes) : response :=
    match p with
    | PContent id => content_inner w id ae true
    | PUndelegated id => undelegated_content w id ae
    | PPreview id => preview w id ae
    | PSatAt sat idx => sat_at_index_content w sat idx ae
    | PBadRequest => bad_request
    | PNoRoute => plain_not_found
    end.

  (* SetResponseHeaderLayer::if_not_present(CONTENT_SECURITY_POLICY, "default-src 'self'") *)
  Definition csp_layer (r : response) : response :=
    match csp r with
    | [] => mkResp (status r) [CSP_DEFAULT] (r_cache r) (r_ctype r) (r_cenc r) (r_body r)
    | _ => r
    end.

  (* the whole decision: [ae_header] is the raw Accept-Encoding header value, if any *)
  Definition serve (w : world) (p : request_path) (ae_header : option bytes) : response :=
    csp_layer (handler w p (accept_encoding_of ae_header)).
End Content.

(* ------------------------------------------------------------------ wire entry point *)

Definition rd_opt_bytes (l : list Z) : option bytes * list Z :=
  match l with
  | [] => (None, [])
  | 0%Z :: r => (None, r)
  | _ :: r => let '(b, r') := read_lp r in (Some b, r')
  end.

Definition MISSING_BASE : N := 4294967296.

(* reference to an inscription: 1 k = number k of the state (only earlier ones exist for a
   delegate, [bound] = number of inscriptions that can be referred to), 2 k = an absent id *)
Definition rd_ref (bound : N) (l : list Z) : N * list Z :=
  match l with
  | 1%Z :: k :: r => ((if nZ k <? bound then nZ k else MISSING_BASE + MISSING_BASE + nZ k), r)
  | _ :: k :: r => (MISSING_BASE + nZ k, r)
  | _ => (MISSING_BASE, [])
  end.

Record winsc := mkW { wi_slot : N; wi_insc : insc; wi_br : option bytes }.

Fixpoint rd_inscs (n : nat) (j : N) (l : list Z) : list winsc * list Z :=
  match n with
  | O => ([], l)
  | S n' =>
    match l with
    | [] => ([], [])
    | slot :: r0 =>
      let '(ct, r1) := rd_opt_bytes r0 in
      let '(ce, r2) := rd_opt_bytes r1 in
      let '(bd, r3) := rd_opt_bytes r2 in
      let '(br, r4) := rd_opt_bytes r3 in
      let '(dg, r5) := match r4 with
                       | 0%Z :: r => (None, r)
                       | _ => let '(d, r) := rd_ref j r4 in (Some d, r)
                       end in
      let '(rest, r6) := rd_inscs n' (j + 1) r5 in
      (mkW (nZ slot) (mkInsc bd ct ce dg) br :: rest, r6)
    end
  end.

Fixpoint rd_refs (n : nat) (bound : N) (l : list Z) : list N * list Z :=
  match n with
  | O => ([], l)
  | S n' => let '(x, r) := rd_ref bound l in
            let '(xs, r') := rd_refs n' bound r in (x :: xs, r')
  end.

Fixpoint index_from {A} (j : N) (l : list A) : list (N * A) :=
  match l with
  | [] => []
  | x :: r => (j, x) :: index_from (j + 1) r
  end.

Definition wr_opt_bytes (o : option bytes) : list Z :=
  match o with None => [0%Z] | Some b => 1%Z :: write_lp b end.

Definition cache_code (c : cache) : Z :=
  match c with CNone => 0 | CImmutable => 1 | CNoStore => 2 end%Z.

Definition option_map_bytes (f : bytes -> bytes) (o : option bytes) : option bytes :=
  match o with Some b => Some (f b) | None => None end.

Definition wr_response (r : response) : list Z :=
  zN (status r) :: zN (len (csp r)) :: flat_map (fun v => write_lp (ows_trim v)) (csp r) ++
  cache_code (r_cache r) ::
  match r_body r with
  | BError => [0%Z]
  | BTemplate refs => 2%Z :: zN (len refs) :: zs refs
  | BStored _ b | BDecompressed _ b =>
    1%Z :: wr_opt_bytes (option_map_bytes ows_trim (r_ctype r)) ++
    wr_opt_bytes (option_map_bytes ows_trim (r_cenc r)) ++ write_lp b
  end.

Definition run_C19 (inp : list Z) : list Z :=
  match inp with
  | isats :: n :: r0 =>
    let '(ws, r1) := rd_inscs (Z.to_nat n) 0 r0 in
    let '(origin, r2) := rd_opt_bytes r1 in
    match r2 with
    | dec :: nh :: r3 =>
      let '(hidden, r4) := rd_refs (Z.to_nat nh) (len ws) r3 in
      let table := index_from 0 ws in
      let w := mkWorld
        (fun id => match assoc_N id table with Some x => Some (wi_insc x) | None => None end)
        (fun slot => map fst (filter (fun p => wi_slot (snd p) =? slot) table))
        (negb (isats =? 0)%Z)
        (fun id => existsb (N.eqb id) hidden)
        origin
        (negb (dec =? 0)%Z)
        true in
      let brt := flat_map (fun x => match i_body (wi_insc x) with
                                    | Some b => [(b, wi_br x)]
                                    | None => [] end) ws in
      let dcmp := fun b => match assoc_bytes b brt with Some o => o | None => None end in
      match r4 with
      | 6%Z :: _ =>
        (* any other explorer route: whatever its handler returns (here: no policy of its own), the
           layer leaves a non-empty policy list; only that is observed *)
        [zb (match csp (csp_layer (mkResp 200 [] CNone None None BError)) with [] => false | _ => true end)]
      | route :: r5 =>
        let '(p, r6) :=
          match route with
          | 0%Z => let '(id, r) := rd_ref (len ws) r5 in (PContent id, r)
          | 1%Z => let '(id, r) := rd_ref (len ws) r5 in (PUndelegated id, r)
          | 2%Z => let '(id, r) := rd_ref (len ws) r5 in (PPreview id, r)
          | 3%Z => match r5 with
                   | slot :: idx :: r => (PSatAt (nZ slot) idx, r)
                   | _ => (PBadRequest, [])
                   end
          | 4%Z => (PBadRequest, r5)
          | _ => (PNoRoute, r5)
          end in
        let '(ae, _) := rd_opt_bytes r6 in
        wr_response (serve dcmp w p (option_map_bytes ows_trim ae))
      | [] => [(-1)%Z]
      end
    | _ => [(-1)%Z]
    end
  | _ => [(-1)%Z]
  end.
