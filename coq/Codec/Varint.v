(* Model of crates/ordinals/src/varint.rs: encode_to_vec / encode / decode. *)
From OrdV Require Import Base.Prelude.

(* while n >> 7 > 0 { push (n as u8 | 0x80); n >>= 7 }  push (n as u8)
   Fuel = bit size of n + 1, always sufficient: the loop is total on every N. *)
Fixpoint encode_fuel (fuel : nat) (n : N) : list N :=
  match fuel with
  | O => [N.land n 255]
  | S f =>
    if N.ltb 0 (N.shiftr n 7)
    then N.lor (N.land n 255) 128 :: encode_fuel f (N.shiftr n 7)
    else [N.land n 255]
  end.

Definition encode (n : N) : list N := encode_fuel (N.to_nat (N.size n)) n.

Inductive verr := Overlong | Overflow | Unterminated.

(* for (i, byte) in buffer.iter().enumerate() { ... } with accumulator n *)
Fixpoint decode_from (i : N) (n : N) (bs : list N) : verr + (N * N) :=
  match bs with
  | [] => inl Unterminated
  | byte :: rest =>
    if N.ltb 18 i then inl Overlong else
    let value := N.land byte 127 in
    if andb (N.eqb i 18) (negb (N.eqb (N.land value 124) 0)) then inl Overflow else
    let n' := N.lor n (N.shiftl value (7 * i)) in
    if N.eqb (N.land byte 128) 0 then inr (n', i + 1)
    else decode_from (i + 1) n' rest
  end.

Definition decode (bs : list N) : verr + (N * N) := decode_from 0 0 bs.

(* Wire entry point.  Input: 0 :: [n]  -> encode n
                              1 :: bytes -> decode bytes.
   Output for decode: [0; n; len] | [1] Overlong | [2] Overflow | [3] Unterminated. *)
Definition run_C26 (inp : list Z) : list Z :=
  match inp with
  | 0%Z :: n :: nil => zs (encode (nZ n))
  | 1%Z :: bs =>
    match decode (ns bs) with
    | inr (n, k) => [0%Z; zN n; zN k]
    | inl Overlong => [1%Z]
    | inl Overflow => [2%Z]
    | inl Unterminated => [3%Z]
    end
  | _ => [(-1)%Z]
  end.
