(* Model of crates/ordinals/src/runestone.rs (decipher, encipher, payload,
   integers), runestone/message.rs (Message::from_integers), runestone/tag.rs
   (Tag::take / encode / encode_option), runestone/flag.rs, edict.rs
   (Edict::from_integers), rune_id.rs (new / delta / next), etching.rs (supply).
   Script decoding/encoding is Codec/Script.v, varints are Codec/Varint.v.
   Tag numbers, flag bits, opcodes, limits and the chunk size come from
   Generated.v (translated from the Rust source on every run).

   Representation choices
   - A transaction is the list of its output scripts (`list (list N)`); nothing
     else of the transaction is read by the code.
   - `fields : HashMap<u128, VecDeque<u128>>` is the list of (tag, value) pairs in
     stream order.  The queue of tag t = the values of the pairs with tag t, in
     order; `field.get(i)` = the i-th such pair; `field.drain(0..N)` removes the
     first N such pairs; "remove the entry when the queue is empty" is implicit;
     `fields.keys()` = the tags that occur.  HashMap iteration order is only
     used by `.any(..)`, so it is not observable.  A second, literal model
     (qmap: association list tag -> queue, decipher_q) is given further down and
     proved equal to this one (Runestone_proofs.decipher_q_eq).
   - Rust integer types: values are N; every `try_from`/`checked_*` is written
     out.  Panic sites on the modelled path:
       PANIC_OUTPUTS_U32  edict.rs `u32::try_from(tx.output.len()).unwrap()`
       PANIC_DELTA        runestone.rs encipher `previous.delta(edict.id).unwrap()`
       PANIC_PUSHBYTES    runestone.rs encipher `chunk.try_into().unwrap()` (PushBytes: len < 2^32)
       PANIC_PUSH_4BN     rust-bitcoin push_slice_no_opt
       PANIC_FUEL         not a Rust panic: fuel of a model loop exhausted (proved unreachable)
     `u64::try_from(transaction.output.len()).unwrap()` (pointer check) and
     `u32::MAX.try_into().unwrap()` (usize) cannot fail on a 64-bit target and
     are not panic sites of the model.

   Wire format (run_C25 : list Z -> list Z), all integers >= 0:
     scripts   := count {len {byte}}                 output scripts ({x} = repetition)
     x?        := 0 | 1 x
     runestone := n_edicts {block tx amount output} etching? mint? pointer?
     etching   := divisibility? premine? rune? spacers? symbol? terms? turbo(0|1)
     terms     := amount? cap? height_start? height_end? offset_start? offset_end?
     mint      := block tx
     artifact  := 0                                   None
                | 1 runestone                         Some(Artifact::Runestone)
                | 2 flaw rune? mint?                  Some(Artifact::Cenotaph); flaw = declaration index in flaw.rs
   case  0 scripts                    -> artifact                      (Runestone::decipher; model: decipher_q)
   case  1 scripts_pre scripts_post runestone
                                      -> len {byte} artifact           (encipher bytes, then decipher of
                                                                        pre ++ [encipher r] ++ post)
   case  2 {byte}                     -> {0 len {byte} | 1 opcode} end  (script.instructions(); end = 2 finished, 3 error)
   case  3 {byte}                     -> {byte}                         (Builder::new().push_slice(bytes))
   A Rust panic / model Panic is the line `-2`. *)
From OrdV Require Import Base.Prelude Base.Wire Generated Codec.Varint Codec.Script.

Inductive Flaw :=
| EdictOutput | EdictRuneId | InvalidScript | Opcode | SupplyOverflow
| TrailingIntegers | TruncatedField | UnrecognizedEvenTag | UnrecognizedFlag | FVarint.

Definition flaw_code (f : Flaw) : N :=
  match f with
  | EdictOutput => FLAW_EdictOutput | EdictRuneId => FLAW_EdictRuneId
  | InvalidScript => FLAW_InvalidScript | Opcode => FLAW_Opcode
  | SupplyOverflow => FLAW_SupplyOverflow | TrailingIntegers => FLAW_TrailingIntegers
  | TruncatedField => FLAW_TruncatedField | UnrecognizedEvenTag => FLAW_UnrecognizedEvenTag
  | UnrecognizedFlag => FLAW_UnrecognizedFlag | FVarint => FLAW_Varint
  end.

Record RuneId := mkId { block : N; tx : N }.
Record Edict := mkEdict { id : RuneId; amount : N; output : N }.
Record Terms := mkTerms {
  t_amount : option N; t_cap : option N;
  t_height_start : option N; t_height_end : option N;
  t_offset_start : option N; t_offset_end : option N }.
Record Etching := mkEtching {
  divisibility : option N; premine : option N; rune : option N;
  spacers : option N; symbol : option N; terms : option Terms; turbo : bool }.
Record Runestone := mkRunestone {
  edicts : list Edict; etching : option Etching; mint : option RuneId; pointer : option N }.
Record Cenotaph := mkCenotaph { c_etching : option N; c_flaw : option Flaw; c_mint : option RuneId }.
Inductive Artifact := ACenotaph (c : Cenotaph) | ARunestone (r : Runestone).

Definition PANIC_OUTPUTS_U32 : N := 2502.
Definition PANIC_DELTA : N := 2503.
Definition PANIC_PUSHBYTES : N := 2504.
Definition PANIC_FUEL : N := 2599.

(* ---- integer conversions ---- *)
Definition to_u8 (x : N) : option N := if N.leb x U8_MAX then Some x else None.
Definition to_u32 (x : N) : option N := if N.leb x U32_MAX then Some x else None.
Definition to_u64 (x : N) : option N := if N.leb x U64_MAX then Some x else None.
Definition checked_add (max a b : N) : option N := if N.leb (a + b) max then Some (a + b) else None.
Definition checked_mul (max a b : N) : option N := if N.leb (a * b) max then Some (a * b) else None.
Definition default0 (o : option N) : N := match o with Some v => v | None => 0 end.

(* ---- rune_id.rs ---- *)
Definition id_new (b t : N) : option RuneId :=
  if andb (N.eqb b 0) (N.ltb 0 t) then None else Some (mkId b t).

Definition id_delta (self next : RuneId) : option (N * N) :=
  if N.ltb (block next) (block self) then None else
  let b := block next - block self in
  if N.eqb b 0 then
    (if N.ltb (tx next) (tx self) then None else Some (b, tx next - tx self))
  else Some (b, tx next).

Definition id_next (self : RuneId) (b t : N) : option RuneId :=
  match to_u64 b with
  | None => None
  | Some b64 =>
    match checked_add U64_MAX (block self) b64 with
    | None => None
    | Some nb =>
      let nt := if N.eqb b 0
                then match to_u32 t with
                     | None => None
                     | Some t32 => checked_add U32_MAX (tx self) t32
                     end
                else to_u32 t in
      match nt with
      | None => None
      | Some nt => id_new nb nt
      end
    end
  end.

(* ---- edict.rs ---- *)
Definition edict_from_integers (n_out : N) (i : RuneId) (amt out : N) : Res (option Edict) :=
  match to_u32 out with
  | None => Ok None
  | Some o =>
    if N.ltb U32_MAX n_out then Panic PANIC_OUTPUTS_U32
    else if N.ltb n_out o then Ok None
    else Ok (Some (mkEdict i amt o))
  end.

(* ---- runestone.rs payload ---- *)
Inductive Payload := Valid (bs : list N) | Invalid (f : Flaw).

(* `for result in instructions { ... }` after OP_RETURN MAGIC_NUMBER.
   Fuel = number of remaining bytes. *)
Fixpoint collect (fuel : nat) (bs : list N) : Res Payload :=
  match next_instr bs with
  | SEnd => Ok (Valid [])
  | SErr => Ok (Invalid InvalidScript)
  | SInstr (IOp _) _ => Ok (Invalid Opcode)
  | SInstr (IPush d) rest =>
    match fuel with
    | O => Panic PANIC_FUEL
    | S f =>
      match collect f rest with
      | Ok (Valid p) => Ok (Valid (d ++ p))
      | other => other
      end
    end
  end.

(* one output: None = `continue` *)
Definition script_payload (s : list N) : option (Res Payload) :=
  match next_instr s with
  | SInstr (IOp o1) r1 =>
    if N.eqb o1 OP_RETURN then
      match next_instr r1 with
      | SInstr (IOp o2) r2 =>
        if N.eqb o2 MAGIC_NUMBER then Some (collect (length r2) r2) else None
      | _ => None
      end
    else None
  | _ => None
  end.

Fixpoint payload (outs : list (list N)) : Res (option Payload) :=
  match outs with
  | [] => Ok None
  | s :: rest =>
    match script_payload s with
    | Some r => do p <- r; Ok (Some p)
    | None => payload rest
    end
  end.

(* ---- runestone.rs integers: Ok None = Err(varint::Error) ---- *)
Fixpoint integers (fuel : nat) (bs : list N) : Res (option (list N)) :=
  match bs with
  | [] => Ok (Some [])
  | _ :: _ =>
    match decode bs with
    | inl _ => Ok None
    | inr (n, k) =>
      match fuel with
      | O => Panic PANIC_FUEL
      | S f =>
        do r <- integers f (skipn (N.to_nat k) bs);
        Ok (match r with Some l => Some (n :: l) | None => None end)
      end
    end
  end.

(* ---- message.rs ---- *)
Definition fields := list (N * N).
Record Message := mkMessage { m_flaw : option Flaw; m_edicts : list Edict; m_fields : fields }.

(* `for chunk in payload[i + 1..].chunks(4)` with `id` threaded through *)
Fixpoint edicts_from (n_out : N) (i : RuneId) (ints : list N) : Res (list Edict * option Flaw) :=
  match ints with
  | [] => Ok ([], None)
  | b :: t :: a :: o :: rest =>
    match id_next i b t with
    | None => Ok ([], Some EdictRuneId)
    | Some nx =>
      do e <- edict_from_integers n_out nx a o;
      match e with
      | None => Ok ([], Some EdictOutput)
      | Some e =>
        do '(es, f) <- edicts_from n_out nx rest;
        Ok (e :: es, f)
      end
    end
  | _ => Ok ([], Some TrailingIntegers)
  end.

Fixpoint from_integers (n_out : N) (ints : list N) : Res Message :=
  match ints with
  | [] => Ok (mkMessage None [] [])
  | tag :: rest =>
    if N.eqb TAG_Body tag then
      do '(es, f) <- edicts_from n_out (mkId 0 0) rest;
      Ok (mkMessage f es [])
    else
      match rest with
      | [] => Ok (mkMessage (Some TruncatedField) [] [])
      | value :: rest' =>
        do m <- from_integers n_out rest';
        Ok (mkMessage (m_flaw m) (m_edicts m) ((tag, value) :: m_fields m))
      end
  end.

(* ---- tag.rs Tag::take ---- *)
Fixpoint get_first (tag : N) (fs : fields) : option N :=
  match fs with
  | [] => None
  | (t, v) :: r => if N.eqb t tag then Some v else get_first tag r
  end.

Fixpoint remove_first (tag : N) (fs : fields) : fields :=
  match fs with
  | [] => []
  | (t, v) :: r => if N.eqb t tag then r else (t, v) :: remove_first tag r
  end.

(* N = 1 *)
Definition take1 {T} (tag : N) (w : N -> option T) (fs : fields) : option T * fields :=
  match get_first tag fs with
  | None => (None, fs)
  | Some v =>
    match w v with
    | None => (None, fs)
    | Some x => (Some x, remove_first tag fs)
    end
  end.

(* N = 2 *)
Definition take2 {T} (tag : N) (w : N -> N -> option T) (fs : fields) : option T * fields :=
  match get_first tag fs with
  | None => (None, fs)
  | Some v0 =>
    match get_first tag (remove_first tag fs) with
    | None => (None, fs)
    | Some v1 =>
      match w v0 v1 with
      | None => (None, fs)
      | Some x => (Some x, remove_first tag (remove_first tag fs))
      end
    end
  end.

(* ---- flag.rs ---- *)
Definition flag_mask (bit : N) : N := N.shiftl 1 bit.
Definition flag_take (bit : N) (flags : N) : bool * N :=
  (negb (N.eqb (N.land flags (flag_mask bit)) 0), N.ldiff flags (flag_mask bit)).
Definition flag_set (bit : N) (flags : N) : N := N.lor flags (flag_mask bit).

(* ---- etching.rs supply ---- *)
Definition supply (e : Etching) : option N :=
  let pre := default0 (premine e) in
  let cap := match terms e with Some t => default0 (t_cap t) | None => 0 end in
  let amt := match terms e with Some t => default0 (t_amount t) | None => 0 end in
  match checked_mul U128_MAX cap amt with
  | None => None
  | Some p => checked_add U128_MAX pre p
  end.

(* ---- the closures passed to Tag::take in decipher ---- *)
Definition w_any (v : N) : option N := Some v.
Definition w_divisibility (v : N) : option N :=
  match to_u8 v with
  | None => None
  | Some d => if N.leb d MAX_DIVISIBILITY then Some d else None
  end.
Definition w_spacers (v : N) : option N :=
  match to_u32 v with
  | None => None
  | Some s => if N.leb s MAX_SPACERS then Some s else None
  end.
(* char::from_u32: Unicode scalar values *)
Definition is_char (v : N) : bool := orb (N.ltb v 55296) (andb (N.ltb 57343 v) (N.leb v 1114111)).
Definition w_symbol (v : N) : option N :=
  match to_u32 v with
  | None => None
  | Some s => if is_char s then Some s else None
  end.
Definition w_mint (b t : N) : option RuneId :=
  match to_u64 b with
  | None => None
  | Some b64 => match to_u32 t with None => None | Some t32 => id_new b64 t32 end
  end.
Definition w_pointer (n_out : N) (v : N) : option N :=
  match to_u32 v with
  | None => None
  | Some p => if N.ltb p n_out then Some p else None
  end.

Definition parse_terms (fs : fields) : Terms * fields :=
  let '(cap, fs) := take1 TAG_Cap w_any fs in
  let '(hs, fs) := take1 TAG_HeightStart to_u64 fs in
  let '(he, fs) := take1 TAG_HeightEnd to_u64 fs in
  let '(amt, fs) := take1 TAG_Amount w_any fs in
  let '(os, fs) := take1 TAG_OffsetStart to_u64 fs in
  let '(oe, fs) := take1 TAG_OffsetEnd to_u64 fs in
  (mkTerms amt cap hs he os oe, fs).

(* the body of `Flag::Etching.take(&mut flags).then(|| Etching { ... })` *)
Definition parse_etching (flags : N) (fs : fields) : Etching * N * fields :=
  let '(div, fs) := take1 TAG_Divisibility w_divisibility fs in
  let '(pre, fs) := take1 TAG_Premine w_any fs in
  let '(rn, fs) := take1 TAG_Rune w_any fs in
  let '(sp, fs) := take1 TAG_Spacers w_spacers fs in
  let '(sy, fs) := take1 TAG_Symbol w_symbol fs in
  let '(has_terms, flags) := flag_take FLAG_Terms flags in
  let '(tm, fs) := if has_terms
                   then let '(t, fs) := parse_terms fs in (Some t, fs)
                   else (None, fs) in
  let '(tb, flags) := flag_take FLAG_Turbo flags in
  (mkEtching div pre rn sp sy tm tb, flags, fs).

(* flaw.get_or_insert(g) under a condition *)
Definition or_flaw (f : option Flaw) (cond : bool) (g : Flaw) : option Flaw :=
  match f with
  | Some _ => f
  | None => if cond then Some g else None
  end.

Definition has_even_tag (fs : fields) : bool := existsb (fun p => N.eqb (fst p mod 2) 0) fs.

(* what decipher has computed just before `if let Some(flaw) = flaw` *)
Record Parsed := mkParsed {
  p_flaw : option Flaw;          (* after all get_or_insert *)
  p_candidate : Runestone;       (* edicts, etching, mint, pointer as parsed *)
  p_flags_left : N;
  p_fields_left : fields }.

Definition parse_message (n_out : N) (m : Message) : Parsed :=
  let fs := m_fields m in
  let '(fl, fs) := take1 TAG_Flags w_any fs in
  let flags := default0 fl in
  let '(is_etching, flags) := flag_take FLAG_Etching flags in
  let '(et, flags, fs) :=
    if is_etching
    then let '(e, flags, fs) := parse_etching flags fs in (Some e, flags, fs)
    else (None, flags, fs) in
  let '(mt, fs) := take2 TAG_Mint w_mint fs in
  let '(pt, fs) := take1 TAG_Pointer (w_pointer n_out) fs in
  let overflow := match et with
                  | Some e => match supply e with None => true | Some _ => false end
                  | None => false
                  end in
  let flaw := or_flaw (m_flaw m) overflow SupplyOverflow in
  let flaw := or_flaw flaw (negb (N.eqb flags 0)) UnrecognizedFlag in
  let flaw := or_flaw flaw (has_even_tag fs) UnrecognizedEvenTag in
  mkParsed flaw (mkRunestone (m_edicts m) et mt pt) flags fs.

Definition artifact_of (p : Parsed) : Artifact :=
  let r := p_candidate p in
  match p_flaw p with
  | Some f =>
    ACenotaph (mkCenotaph (match etching r with Some e => rune e | None => None end) (Some f) (mint r))
  | None => ARunestone r
  end.

Definition cenotaph_of_flaw (f : Flaw) : Artifact := ACenotaph (mkCenotaph None (Some f) None).

Definition decipher (outs : list (list N)) : Res (option Artifact) :=
  let n_out := len outs in
  do p <- payload outs;
  match p with
  | None => Ok None
  | Some (Invalid f) => Ok (Some (cenotaph_of_flaw f))
  | Some (Valid bs) =>
    do r <- integers (length bs) bs;
    match r with
    | None => Ok (Some (cenotaph_of_flaw FVarint))
    | Some ints =>
      do m <- from_integers n_out ints;
      Ok (Some (artifact_of (parse_message n_out m)))
    end
  end.

(* ---- literal model of Message.fields (HashMap<u128, VecDeque<u128>>) ----
   decipher_q below is decipher with the fields kept in an association list
   tag -> queue, filled front to back with push_back and read with a literal
   Tag::take; Proofs/Runestone_proofs.v (decipher_q_eq) proves decipher_q = decipher,
   so the pair-list representation used by the theorems is not an assumption.
   Wire op 0 runs decipher_q, wire op 1 runs decipher. *)
(* A literal model of Message.fields: an association list tag -> queue with
   distinct keys and no empty queue (the Rust code removes a queue as soon as it
   is empty), and the operations the code performs on it. *)
Definition qmap := list (N * list N).

Fixpoint q_get (t : N) (q : qmap) : option (list N) :=
  match q with [] => None | (t', l) :: r => if N.eqb t' t then Some l else q_get t r end.
Fixpoint q_remove (t : N) (q : qmap) : qmap :=
  match q with [] => [] | (t', l) :: r => if N.eqb t' t then r else (t', l) :: q_remove t r end.
(* insert or overwrite *)
Fixpoint q_set (t : N) (l : list N) (q : qmap) : qmap :=
  match q with
  | [] => [(t, l)]
  | (t', l') :: r => if N.eqb t' t then (t', l) :: r else (t', l') :: q_set t l r
  end.
(* fields.entry(tag).or_default().push_back(value) *)
Definition q_push (t v : N) (q : qmap) : qmap :=
  match q_get t q with Some l => q_set t (l ++ [v]) q | None => q_set t [v] q end.
(* field.drain(0..N); if field.is_empty() { fields.remove(tag) } *)
Definition q_drained (t : N) (rest : list N) (q : qmap) : qmap :=
  match rest with [] => q_remove t q | _ :: _ => q_set t rest q end.
(* Tag::take::<1> and ::<2> *)
Definition q_take1 {T} (t : N) (w : N -> option T) (q : qmap) : option T * qmap :=
  match q_get t q with
  | Some (v :: rest) =>
    match w v with Some x => (Some x, q_drained t rest q) | None => (None, q) end
  | _ => (None, q)
  end.
Definition q_take2 {T} (t : N) (w : N -> N -> option T) (q : qmap) : option T * qmap :=
  match q_get t q with
  | Some (v0 :: v1 :: rest) =>
    match w v0 v1 with Some x => (Some x, q_drained t rest q) | None => (None, q) end
  | _ => (None, q)
  end.
(* fields.keys().any(|tag| tag % 2 == 0) *)
Definition q_has_even (q : qmap) : bool := existsb (fun p => N.eqb (fst p mod 2) 0) q.


(* ---- decipher written against an abstract field store ---- *)
Section GenericParse.
  Variable F : Type.
  Variable g_take1 : forall T : Type, N -> (N -> option T) -> F -> option T * F.
  Variable g_take2 : forall T : Type, N -> (N -> N -> option T) -> F -> option T * F.
  Variable g_even : F -> bool.

  Definition g_parse_terms (fs : F) : Terms * F :=
    let '(cap, fs) := g_take1 N TAG_Cap w_any fs in
    let '(hs, fs) := g_take1 N TAG_HeightStart to_u64 fs in
    let '(he, fs) := g_take1 N TAG_HeightEnd to_u64 fs in
    let '(amt, fs) := g_take1 N TAG_Amount w_any fs in
    let '(os, fs) := g_take1 N TAG_OffsetStart to_u64 fs in
    let '(oe, fs) := g_take1 N TAG_OffsetEnd to_u64 fs in
    (mkTerms amt cap hs he os oe, fs).

  Definition g_parse_etching (flags : N) (fs : F) : Etching * N * F :=
    let '(div, fs) := g_take1 N TAG_Divisibility w_divisibility fs in
    let '(pre, fs) := g_take1 N TAG_Premine w_any fs in
    let '(rn, fs) := g_take1 N TAG_Rune w_any fs in
    let '(sp, fs) := g_take1 N TAG_Spacers w_spacers fs in
    let '(sy, fs) := g_take1 N TAG_Symbol w_symbol fs in
    let '(has_terms, flags) := flag_take FLAG_Terms flags in
    let '(tm, fs) := if has_terms
                     then let '(t, fs) := g_parse_terms fs in (Some t, fs)
                     else (None, fs) in
    let '(tb, flags) := flag_take FLAG_Turbo flags in
    (mkEtching div pre rn sp sy tm tb, flags, fs).

  (* result: flaw, candidate runestone, flags left, store left *)
  Definition g_parse (n_out : N) (mflaw : option Flaw) (es : list Edict) (fs : F)
    : option Flaw * Runestone * N * F :=
    let '(fl, fs) := g_take1 N TAG_Flags w_any fs in
    let flags := default0 fl in
    let '(is_etching, flags) := flag_take FLAG_Etching flags in
    let '(et, flags, fs) :=
      if is_etching
      then let '(e, flags, fs) := g_parse_etching flags fs in (Some e, flags, fs)
      else (None, flags, fs) in
    let '(mt, fs) := g_take2 RuneId TAG_Mint w_mint fs in
    let '(pt, fs) := g_take1 N TAG_Pointer (w_pointer n_out) fs in
    let overflow := match et with
                    | Some e => match supply e with None => true | Some _ => false end
                    | None => false
                    end in
    let flaw := or_flaw mflaw overflow SupplyOverflow in
    let flaw := or_flaw flaw (negb (N.eqb flags 0)) UnrecognizedFlag in
    let flaw := or_flaw flaw (g_even fs) UnrecognizedEvenTag in
    (flaw, mkRunestone es et mt pt, flags, fs).
End GenericParse.


(* Message::from_integers, literally: fields filled front to back by push_back *)
Fixpoint from_integers_q (n_out : N) (q : qmap) (ints : list N) : Res (option Flaw * list Edict * qmap) :=
  match ints with
  | [] => Ok (None, [], q)
  | tag :: rest =>
    if N.eqb TAG_Body tag then
      do '(es, f) <- edicts_from n_out (mkId 0 0) rest;
      Ok (f, es, q)
    else
      match rest with
      | [] => Ok (Some TruncatedField, [], q)
      | value :: rest' => from_integers_q n_out (q_push tag value q) rest'
      end
  end.


(* decipher with the literal map *)
Definition decipher_q (outs : list (list N)) : Res (option Artifact) :=
  let n_out := len outs in
  do p <- payload outs;
  match p with
  | None => Ok None
  | Some (Invalid f) => Ok (Some (cenotaph_of_flaw f))
  | Some (Valid bs) =>
    do r <- integers (length bs) bs;
    match r with
    | None => Ok (Some (cenotaph_of_flaw FVarint))
    | Some ints =>
      do '(mflaw, es, q) <- from_integers_q n_out [] ints;
      let '(flaw, r, flags, q') := g_parse qmap (@q_take1) (@q_take2) q_has_even n_out mflaw es q in
      Ok (Some (artifact_of (mkParsed flaw r flags [])))
    end
  end.


(* ---- encipher ---- *)
Definition enc_opt (tag : N) (o : option N) : list N :=
  match o with Some v => [tag; v] | None => [] end.

(* derive(Ord) on RuneId: block, then tx *)
Definition id_leb (a b : RuneId) : bool :=
  orb (N.ltb (block a) (block b)) (andb (N.eqb (block a) (block b)) (N.leb (tx a) (tx b))).

(* edicts.sort_by_key(|edict| edict.id): stable; any stable sort gives the same
   list, here insertion sort *)
Fixpoint insert_edict (e : Edict) (l : list Edict) : list Edict :=
  match l with
  | [] => [e]
  | x :: r => if id_leb (id e) (id x) then e :: x :: r else x :: insert_edict e r
  end.
Fixpoint sort_edicts (l : list Edict) : list Edict :=
  match l with
  | [] => []
  | e :: r => insert_edict e (sort_edicts r)
  end.

Fixpoint enc_edicts (previous : RuneId) (es : list Edict) : Res (list N) :=
  match es with
  | [] => Ok []
  | e :: r =>
    match id_delta previous (id e) with
    | None => Panic PANIC_DELTA
    | Some (b, t) =>
      do rest <- enc_edicts (id e) r;
      Ok (b :: t :: amount e :: output e :: rest)
    end
  end.

Definition etching_flags (e : Etching) : N :=
  let flags := flag_set FLAG_Etching 0 in
  let flags := match terms e with Some _ => flag_set FLAG_Terms flags | None => flags end in
  if turbo e then flag_set FLAG_Turbo flags else flags.

Definition enc_terms (t : Terms) : list N :=
  enc_opt TAG_Amount (t_amount t) ++ enc_opt TAG_Cap (t_cap t) ++
  enc_opt TAG_HeightStart (t_height_start t) ++ enc_opt TAG_HeightEnd (t_height_end t) ++
  enc_opt TAG_OffsetStart (t_offset_start t) ++ enc_opt TAG_OffsetEnd (t_offset_end t).

Definition enc_etching (e : Etching) : list N :=
  [TAG_Flags; etching_flags e] ++
  enc_opt TAG_Rune (rune e) ++ enc_opt TAG_Divisibility (divisibility e) ++
  enc_opt TAG_Spacers (spacers e) ++ enc_opt TAG_Symbol (symbol e) ++
  enc_opt TAG_Premine (premine e) ++
  match terms e with Some t => enc_terms t | None => [] end.

(* the integers written before the body *)
Definition enc_fields (r : Runestone) : list N :=
  match etching r with Some e => enc_etching e | None => [] end ++
  match mint r with Some i => [TAG_Mint; block i; TAG_Mint; tx i] | None => [] end ++
  enc_opt TAG_Pointer (pointer r).

Definition encipher_ints (r : Runestone) : Res (list N) :=
  match edicts r with
  | [] => Ok (enc_fields r)
  | _ :: _ =>
    do body <- enc_edicts (mkId 0 0) (sort_edicts (edicts r));
    Ok (enc_fields r ++ TAG_Body :: body)
  end.

Fixpoint push_chunks (cs : list (list N)) : Res (list N) :=
  match cs with
  | [] => Ok []
  | c :: r =>
    if N.leb 4294967296 (len c) then Panic PANIC_PUSHBYTES else
    do p <- push_slice c;
    do rest <- push_chunks r;
    Ok (p ++ rest)
  end.

Definition encipher (r : Runestone) : Res (list N) :=
  do ints <- encipher_ints r;
  let pl := flat_map encode ints in
  do pushes <- push_chunks (chunks ENCIPHER_CHUNK pl);
  Ok (OP_RETURN :: MAGIC_NUMBER :: pushes).

(* ---- wire ---- *)
Definition wr_opt (o : option N) : list Z := write_opt o.
Definition wr_id_opt (o : option RuneId) : list Z :=
  match o with None => [0%Z] | Some i => [1%Z; zN (block i); zN (tx i)] end.

Definition wr_terms (t : Terms) : list Z :=
  wr_opt (t_amount t) ++ wr_opt (t_cap t) ++ wr_opt (t_height_start t) ++ wr_opt (t_height_end t) ++
  wr_opt (t_offset_start t) ++ wr_opt (t_offset_end t).

Definition wr_etching (e : Etching) : list Z :=
  wr_opt (divisibility e) ++ wr_opt (premine e) ++ wr_opt (rune e) ++ wr_opt (spacers e) ++
  wr_opt (symbol e) ++
  match terms e with None => [0%Z] | Some t => 1%Z :: wr_terms t end ++
  [zb (turbo e)].

Definition wr_edict (e : Edict) : list Z :=
  [zN (block (id e)); zN (tx (id e)); zN (amount e); zN (output e)].

Definition wr_runestone (r : Runestone) : list Z :=
  zN (len (edicts r)) :: flat_map wr_edict (edicts r) ++
  match etching r with None => [0%Z] | Some e => 1%Z :: wr_etching e end ++
  wr_id_opt (mint r) ++ wr_opt (pointer r).

Definition wr_artifact (a : option Artifact) : list Z :=
  match a with
  | None => [0%Z]
  | Some (ARunestone r) => 1%Z :: wr_runestone r
  | Some (ACenotaph c) =>
    2%Z :: match c_flaw c with Some f => zN (flaw_code f) | None => (-1)%Z end ::
    wr_opt (c_etching c) ++ wr_id_opt (c_mint c)
  end.

Fixpoint rd_scripts (k : nat) (l : list Z) : list (list N) * list Z :=
  match k with
  | O => ([], l)
  | S k' =>
    let '(s, r) := read_lp l in
    let '(ss, r') := rd_scripts k' r in
    (s :: ss, r')
  end.
Definition rd_script_list (l : list Z) : list (list N) * list Z :=
  match l with
  | [] => ([], [])
  | k :: r => rd_scripts (Z.to_nat k) r
  end.

Fixpoint rd_edicts (k : nat) (l : list Z) : list Edict * list Z :=
  match k with
  | O => ([], l)
  | S k' =>
    match l with
    | b :: t :: a :: o :: r =>
      let '(es, r') := rd_edicts k' r in
      (mkEdict (mkId (nZ b) (nZ t)) (nZ a) (nZ o) :: es, r')
    | _ => ([], [])
    end
  end.

Definition rd_terms (l : list Z) : Terms * list Z :=
  let '(a, l) := read_opt l in
  let '(c, l) := read_opt l in
  let '(hs, l) := read_opt l in
  let '(he, l) := read_opt l in
  let '(os, l) := read_opt l in
  let '(oe, l) := read_opt l in
  (mkTerms a c hs he os oe, l).

Definition rd_etching (l : list Z) : Etching * list Z :=
  let '(d, l) := read_opt l in
  let '(p, l) := read_opt l in
  let '(rn, l) := read_opt l in
  let '(sp, l) := read_opt l in
  let '(sy, l) := read_opt l in
  let '(tm, l) := match l with
                  | 0%Z :: r => (None, r)
                  | _ :: r => let '(t, r') := rd_terms r in (Some t, r')
                  | [] => (None, [])
                  end in
  let '(tb, l) := match l with
                  | 0%Z :: r => (false, r)
                  | _ :: r => (true, r)
                  | [] => (false, [])
                  end in
  (mkEtching d p rn sp sy tm tb, l).

Definition rd_runestone (l : list Z) : Runestone * list Z :=
  match l with
  | [] => (mkRunestone [] None None None, [])
  | k :: l =>
    let '(es, l) := rd_edicts (Z.to_nat k) l in
    let '(et, l) := match l with
                    | 0%Z :: r => (None, r)
                    | _ :: r => let '(e, r') := rd_etching r in (Some e, r')
                    | [] => (None, [])
                    end in
    let '(mt, l) := match l with
                    | 0%Z :: r => (None, r)
                    | _ :: b :: t :: r => (Some (mkId (nZ b) (nZ t)), r)
                    | _ => (None, [])
                    end in
    let '(pt, l) := read_opt l in
    (mkRunestone es et mt pt, l)
  end.

Definition wr_instr (i : instr) : list Z :=
  match i with
  | IPush d => 0%Z :: write_lp d
  | IOp o => [1%Z; zN o]
  end.

Definition PANIC_LINE : list Z := [(-2)%Z].

Definition run_C25 (inp : list Z) : list Z :=
  match inp with
  | 0%Z :: l =>
    let '(outs, _) := rd_script_list l in
    match decipher_q outs with
    | Ok a => wr_artifact a
    | _ => PANIC_LINE
    end
  | 1%Z :: l =>
    let '(pre, l) := rd_script_list l in
    let '(post, l) := rd_script_list l in
    let '(r, _) := rd_runestone l in
    match encipher r with
    | Ok s =>
      match decipher (pre ++ [s] ++ post) with
      | Ok a => write_lp s ++ wr_artifact a
      | _ => PANIC_LINE
      end
    | _ => PANIC_LINE
    end
  | 2%Z :: bs =>
    let '(is, ok) := instructions (length bs) (ns bs) in
    flat_map wr_instr is ++ [if ok then 2%Z else 3%Z]
  | 3%Z :: bs =>
    match push_slice (ns bs) with
    | Ok s => zs s
    | _ => PANIC_LINE
    end
  | _ => [(-1)%Z]
  end.
