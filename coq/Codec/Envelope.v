(* Model of the inscription envelope code of ord:
     src/inscriptions/envelope.rs   RawEnvelope::{from_transaction, from_tapscript, accept,
                                    from_instructions}, ParsedEnvelope::from(RawEnvelope)
     src/inscriptions/tag.rs        Tag::{chunked, bytes, append, append_array, take, take_array}
     src/inscriptions/inscription.rs  append_reveal_script_to_builder,
                                    append_batch_reveal_script_to_builder, pointer_value, pointer
     src/inscriptions/inscription_id.rs  InscriptionId::{value, from_value}
   Executable, no proofs.  Script decoding / pushes / Witness::tapscript are in EnvScript.v.

   Panic tags (Rust sites on the modelled path):
     1  envelope.rs from_instructions  `input.try_into().unwrap()`   (usize -> u32)
     2  envelope.rs from_instructions  `offset.try_into().unwrap()`  (usize -> u32)
     10 tag.rs / inscription.rs        `….try_into().unwrap()` to &PushBytes / push_slice
                                       on a value of 2^32 bytes or more
   Modelling note (laziness): the Rust parser pulls instructions lazily and returns the
   script error with `?` as soon as the failing instruction is reached; every path of
   from_tapscript/from_instructions keeps pulling until the iterator is exhausted or an
   error surfaces (accept() only peeks, the outer loop then pulls the same item), so the
   result is Err exactly when some instruction of the script fails to decode.  The model
   therefore decodes the whole script first ([decode_script]) and runs the state machine on
   the instruction list. *)
From OrdV Require Import Base.Prelude Base.Wire Generated Codec.EnvScript.

Definition bytes := list N.

Fixpoint bytes_eqb (a b : bytes) : bool :=
  match a, b with
  | [], [] => true
  | x :: a', y :: b' => andb (x =? y) (bytes_eqb a' b')
  | _, _ => false
  end.

Definition is_nil {A} (l : list A) : bool := match l with [] => true | _ => false end.

(* ------------------------------------------------------------------ raw envelopes *)

Record raw_env := mk_raw { re_payload : list bytes; re_pushnum : bool; re_stutter : bool }.

(* Control state of from_tapscript + from_instructions, as one automaton over the
   instruction list.  [stuttered] is the outer loop's variable. *)
Inductive pstate :=
| SOut (stuttered : bool)                 (* outer loop of from_tapscript *)
| SFalse (stuttered : bool)               (* saw an empty push: from_instructions before accept(OP_IF) *)
| SIf (stuttered : bool)                  (* accepted OP_IF: before accept(push "ord") *)
| SEnv (stutter pushnum : bool) (acc : list bytes).  (* payload loop; acc is reversed *)

Definition is_empty_push (i : instr) : bool := match i with IPush [] => true | _ => false end.
Definition is_op (op : N) (i : instr) : bool := match i with IOp o => o =? op | _ => false end.
Definition is_push_of (d : bytes) (i : instr) : bool :=
  match i with IPush b => bytes_eqb b d | _ => false end.

(* OP_PUSHNUM_NEG1 -> [0x81], OP_PUSHNUM_k -> [k] *)
Definition pushnum_value (op : N) : option bytes :=
  if op =? OP_PUSHNUM_NEG1 then Some [129]
  else if andb (OP_PUSHNUM_1 <=? op) (op <=? OP_PUSHNUM_16) then Some [op - 80]
  else None.

Definition step (st : pstate) (i : instr) : pstate * option raw_env :=
  match st with
  | SOut s =>
    (* `if instruction == PushBytes([])` → from_instructions(.., stuttered) *)
    if is_empty_push i then (SFalse s, None) else (SOut s, None)
  | SFalse s =>
    (* accept(OP_IF); otherwise `stutter = peek == PushBytes([])`, return (stutter, None):
       the outer loop sets stuttered = stutter and pulls the peeked instruction itself *)
    if is_op OP_IF i then (SIf s, None)
    else if is_empty_push i then (SFalse true, None)
    else (SOut false, None)
  | SIf s =>
    if is_push_of PROTOCOL_ID i then (SEnv s false [], None)
    else if is_empty_push i then (SFalse true, None)
    else (SOut false, None)
  | SEnv s pn acc =>
    match i with
    | IPush d => (SEnv s pn (d :: acc), None)
    | IOp op =>
      if op =? OP_ENDIF then
        (* envelope pushed; `stuttered` keeps its value *)
        (SOut s, Some (mk_raw (rev acc) pn s))
      else match pushnum_value op with
           | Some d => (SEnv s true (d :: acc), None)
           | None => (SOut false, None)   (* Some(_) => return Ok((false, None)) *)
           end
    end
  end.

Fixpoint run_auto (st : pstate) (l : list instr) : list raw_env :=
  match l with
  | [] => []
  | i :: r =>
    match step st i with
    | (st', Some e) => e :: run_auto st' r
    | (st', None) => run_auto st' r
    end
  end.

(* from_tapscript: None = Err(script error) *)
Definition from_tapscript (script : bytes) : option (list raw_env) :=
  match decode_script script with
  | Some is => Some (run_auto (SOut false) is)
  | None => None
  end.

(* ------------------------------------------------------------------ fields map *)
(* BTreeMap<&[u8], Vec<&[u8]>> as an association list with unique keys; iteration order is
   never observable (only `any`, get, remove are used). *)
Definition fields := list (bytes * list bytes).

Fixpoint fpush (k v : bytes) (m : fields) : fields :=       (* entry(k).or_default().push(v) *)
  match m with
  | [] => [(k, [v])]
  | (k', vs) :: r => if bytes_eqb k k' then (k', vs ++ [v]) :: r else (k', vs) :: fpush k v r
  end.

Fixpoint fget (k : bytes) (m : fields) : option (list bytes) :=
  match m with
  | [] => None
  | (k', vs) :: r => if bytes_eqb k k' then Some vs else fget k r
  end.

Fixpoint fremove (k : bytes) (m : fields) : fields :=          (* remove(k): keys are unique *)
  match m with
  | [] => []
  | (k', vs) :: r => if bytes_eqb k k' then fremove k r else (k', vs) :: fremove k r
  end.

Fixpoint fset (k : bytes) (vs : list bytes) (m : fields) : fields :=   (* get_mut + mutate *)
  match m with
  | [] => []
  | (k', vs') :: r => if bytes_eqb k k' then (k', vs) :: r else (k', vs') :: fset k vs r
  end.

Definition tag_chunked (t : N) : bool := existsb (N.eqb t) TAGS_CHUNKED.

(* Tag::take *)
Definition take (t : N) (m : fields) : option bytes * fields :=
  if tag_chunked t then
    match fget [t] m with
    | None => (None, m)
    | Some vs => (if is_nil vs then None else Some (concat vs), fremove [t] m)
    end
  else
    match fget [t] m with
    | None => (None, m)
    | Some [] => (None, m)
    | Some (v :: rest) => (Some v, if is_nil rest then fremove [t] m else fset [t] rest m)
    end.

(* Tag::take_array *)
Definition take_array (t : N) (m : fields) : list bytes * fields :=
  match fget [t] m with
  | None => ([], m)
  | Some vs => (vs, fremove [t] m)
  end.

(* ------------------------------------------------------------------ parsed envelopes *)

Record inscription := mk_insc {
  i_body : option bytes;
  i_content_encoding : option bytes;
  i_content_type : option bytes;
  i_delegate : option bytes;
  i_duplicate_field : bool;
  i_incomplete_field : bool;
  i_metadata : option bytes;
  i_metaprotocol : option bytes;
  i_parents : list bytes;
  i_pointer : option bytes;
  i_properties : option bytes;
  i_property_encoding : option bytes;
  i_rune : option bytes;
  i_unrecognized_even_field : bool }.

(* payload[..body] and payload[body+1..] where body = first even position holding an empty push *)
Fixpoint split_body (p : list bytes) : list bytes * option (list bytes) :=
  match p with
  | [] => ([], None)
  | k :: r =>
    if is_nil k then ([], Some r) else
    match r with
    | [] => ([k], None)
    | v :: r' => let '(b, a) := split_body r' in (k :: v :: b, a)
    end
  end.

(* chunks(2): pairs, and whether a single trailing element was left (incomplete_field) *)
Fixpoint pairs_of (p : list bytes) : list (bytes * bytes) * bool :=
  match p with
  | [] => ([], false)
  | [_] => ([], true)
  | k :: v :: r => let '(ps, inc) := pairs_of r in ((k, v) :: ps, inc)
  end.

Definition build_fields (ps : list (bytes * bytes)) : fields :=
  fold_left (fun m kv => fpush (fst kv) (snd kv) m) ps [].

Definition key_even (k : bytes) : bool :=
  match k with b :: _ => b mod 2 =? 0 | [] => false end.

(* ParsedEnvelope::from(RawEnvelope), payload part *)
Definition parse_payload (p : list bytes) : inscription :=
  let '(before, after) := split_body p in
  let '(ps, incomplete) := pairs_of before in
  let m0 := build_fields ps in
  let dup := existsb (fun kv => (1 <? length (snd kv))%nat) m0 in
  let '(content_encoding, m1) := take TAG_CONTENT_ENCODING m0 in
  let '(content_type, m2) := take TAG_CONTENT_TYPE m1 in
  let '(delegate, m3) := take TAG_DELEGATE m2 in
  let '(metadata, m4) := take TAG_METADATA m3 in
  let '(metaprotocol, m5) := take TAG_METAPROTOCOL m4 in
  let '(parents, m6) := take_array TAG_PARENT m5 in
  let '(pointer, m7) := take TAG_POINTER m6 in
  let '(properties, m8) := take TAG_PROPERTIES m7 in
  let '(property_encoding, m9) := take TAG_PROPERTY_ENCODING m8 in
  let '(rune, m10) := take TAG_RUNE m9 in
  let uneven := existsb (fun kv => key_even (fst kv)) m10 in
  mk_insc (option_map (@concat N) after) content_encoding content_type delegate dup incomplete
          metadata metaprotocol parents pointer properties property_encoding rune uneven.

Record penv := mk_penv {
  pe_input : N; pe_offset : N; pe_payload : inscription; pe_pushnum : bool; pe_stutter : bool }.

(* Envelope { input: input.try_into().unwrap(), offset: offset.try_into().unwrap(), .. } *)
Fixpoint number_envs (input offset : N) (es : list raw_env) : Res (list penv) :=
  match es with
  | [] => Ok []
  | e :: r =>
    if U32_MAX <? input then Panic 1
    else if U32_MAX <? offset then Panic 2
    else
      do r' <- number_envs input (offset + 1) r;
      Ok (mk_penv input offset (parse_payload (re_payload e)) (re_pushnum e) (re_stutter e) :: r')
  end.

(* one input of RawEnvelope::from_transaction followed by the map into ParsedEnvelope *)
Definition input_envelopes (input : N) (w : list bytes) : Res (list penv) :=
  match tapscript w with
  | None => Ok []
  | Some script =>
    match from_tapscript script with
    | None => Ok []
    | Some es => number_envs input 0 es
    end
  end.

Fixpoint from_transaction_at (input : N) (ws : list (list bytes)) : Res (list penv) :=
  match ws with
  | [] => Ok []
  | w :: r =>
    do a <- input_envelopes input w;
    do b <- from_transaction_at (input + 1) r;
    Ok (a ++ b)
  end.

(* ParsedEnvelope::from_transaction on the witnesses of the inputs *)
Definition from_transaction (ws : list (list bytes)) : Res (list penv) := from_transaction_at 0 ws.

(* ------------------------------------------------------------------ builder *)

(* slice::chunks(n): non-overlapping chunks of n elements, the last one shorter; none for [] *)
Fixpoint chunks_fuel {A} (fuel : nat) (n : nat) (l : list A) : list (list A) :=
  match fuel with
  | O => []
  | S f => match l with
           | [] => []
           | _ => firstn n l :: chunks_fuel f n (skipn n l)
           end
  end.
Definition chunks {A} (n : nat) (l : list A) : list (list A) := chunks_fuel (length l) n l.

Definition CHUNK : nat := N.to_nat MAX_SCRIPT_ELEMENT_SIZE.

Definition push_r (d : bytes) : Res bytes :=
  match push_slice d with Some b => Ok b | None => Panic 10 end.

Fixpoint concat_r (l : list (Res bytes)) : Res bytes :=
  match l with
  | [] => Ok []
  | x :: r => do a <- x; do b <- concat_r r; Ok (a ++ b)
  end.

Definition push_pair (t : N) (v : bytes) : Res bytes :=
  do a <- push_r [t]; do b <- push_r v; Ok (a ++ b).

(* Tag::append *)
Definition tag_append (t : N) (value : option bytes) : Res bytes :=
  match value with
  | None => Ok []
  | Some v =>
    if tag_chunked t then concat_r (map (push_pair t) (chunks CHUNK v))
    else push_pair t v
  end.

(* Tag::append_array *)
Definition tag_append_array (t : N) (values : list bytes) : Res bytes :=
  concat_r (map (push_pair t) values).

Definition append_body (body : option bytes) : Res bytes :=
  match body with
  | None => Ok []
  | Some b => do t <- push_r []; do c <- concat_r (map push_r (chunks CHUNK b)); Ok (t ++ c)
  end.

(* Inscription::append_reveal_script_to_builder: the bytes appended to the builder *)
Definition reveal_script (i : inscription) : Res bytes :=
  do head <- push_r PROTOCOL_ID;
  do fs <- concat_r [
    tag_append TAG_CONTENT_TYPE (i_content_type i);
    tag_append TAG_CONTENT_ENCODING (i_content_encoding i);
    tag_append TAG_METAPROTOCOL (i_metaprotocol i);
    tag_append_array TAG_PARENT (i_parents i);
    tag_append TAG_DELEGATE (i_delegate i);
    tag_append TAG_POINTER (i_pointer i);
    tag_append TAG_METADATA (i_metadata i);
    tag_append TAG_RUNE (i_rune i);
    tag_append TAG_PROPERTIES (i_properties i);
    tag_append TAG_PROPERTY_ENCODING (i_property_encoding i);
    append_body (i_body i) ];
  Ok ([0; OP_IF] ++ head ++ fs ++ [OP_ENDIF]).

(* append_batch_reveal_script_to_builder on a builder already holding [pre] *)
Definition batch_reveal_script (pre : bytes) (is : list inscription) : Res bytes :=
  do s <- concat_r (map reveal_script is); Ok (pre ++ s).

(* ------------------------------------------------------------------ compact encodings *)

(* little-endian digits without trailing zeros, at most [fuel] of them *)
Fixpoint le_trim (fuel : nat) (n : N) : bytes :=
  match fuel with
  | O => []
  | S f => if n =? 0 then [] else (n mod 256) :: le_trim f (n / 256)
  end.

Definition le_value (bs : bytes) : N := fold_right (fun b acc => b + 256 * acc) 0 bs.

(* Inscription::pointer_value(u64) *)
Definition pointer_value (p : N) : bytes := le_trim 8 p.

(* Inscription::pointer on the raw pointer field *)
Definition pointer_of (value : bytes) : option N :=
  if existsb (fun b => negb (b =? 0)) (skipn 8 value) then None
  else Some (le_value (firstn 8 value)).

Definition TXID_LEN : nat := 32.

(* InscriptionId as (txid bytes in to_byte_array order, index) *)
Definition id_value (txid : bytes) (index : N) : bytes := txid ++ le_trim 4 index.

Definition id_from_value (value : bytes) : option (bytes * N) :=
  if (length value <? TXID_LEN)%nat then None
  else if (TXID_LEN + 4 <? length value)%nat then None
  else
    let txid := firstn TXID_LEN value in
    let index := skipn TXID_LEN value in
    if andb (negb (is_nil index))
            (andb (negb (length index =? 4)%nat) (last index 1 =? 0))
    then None
    else Some (txid, le_value index).

(* ------------------------------------------------------------------ wire entry point *)

Definition read_optb (l : list Z) : option bytes * list Z :=
  match l with
  | [] => (None, [])
  | 0%Z :: r => (None, r)
  | _ :: r => let '(b, r') := read_lp r in (Some b, r')
  end.

Fixpoint read_n_lp (n : nat) (l : list Z) : list bytes * list Z :=
  match n with
  | O => ([], l)
  | S k => let '(b, r) := read_lp l in let '(bs, r') := read_n_lp k r in (b :: bs, r')
  end.

Definition read_count (l : list Z) : nat * list Z :=
  match l with [] => (O, []) | n :: r => (Z.to_nat n, r) end.

(* inscription content fields in the order of the Rust struct (flags are not inputs) *)
Definition read_insc (l : list Z) : inscription * list Z :=
  let '(body, l) := read_optb l in
  let '(ce, l) := read_optb l in
  let '(ct, l) := read_optb l in
  let '(dg, l) := read_optb l in
  let '(md, l) := read_optb l in
  let '(mp, l) := read_optb l in
  let '(np, l) := read_count l in
  let '(ps, l) := read_n_lp np l in
  let '(ptr, l) := read_optb l in
  let '(pr, l) := read_optb l in
  let '(pe, l) := read_optb l in
  let '(rn, l) := read_optb l in
  (mk_insc body ce ct dg false false md mp ps ptr pr pe rn false, l).

Fixpoint read_n_insc (n : nat) (l : list Z) : list inscription * list Z :=
  match n with
  | O => ([], l)
  | S k => let '(i, r) := read_insc l in let '(is, r') := read_n_insc k r in (i :: is, r')
  end.

Fixpoint read_n_witness (n : nat) (l : list Z) : list (list bytes) * list Z :=
  match n with
  | O => ([], l)
  | S k =>
    let '(m, r) := read_count l in
    let '(w, r1) := read_n_lp m r in
    let '(ws, r2) := read_n_witness k r1 in (w :: ws, r2)
  end.

Definition write_optb (o : option bytes) : list Z :=
  match o with None => [0%Z] | Some b => 1%Z :: write_lp b end.

Definition write_insc (i : inscription) : list Z :=
  write_optb (i_body i) ++ write_optb (i_content_encoding i) ++ write_optb (i_content_type i) ++
  write_optb (i_delegate i) ++ [zb (i_duplicate_field i); zb (i_incomplete_field i)] ++
  write_optb (i_metadata i) ++ write_optb (i_metaprotocol i) ++
  zN (lenN (i_parents i)) :: flat_map write_lp (i_parents i) ++
  write_optb (i_pointer i) ++ write_optb (i_properties i) ++ write_optb (i_property_encoding i) ++
  write_optb (i_rune i) ++ [zb (i_unrecognized_even_field i)].

Definition write_penv (e : penv) : list Z :=
  [zN (pe_input e); zN (pe_offset e); zb (pe_pushnum e); zb (pe_stutter e)] ++ write_insc (pe_payload e).

Definition write_envs (r : Res (list penv)) : list Z :=
  match r with
  | Ok es => zN (lenN es) :: flat_map write_penv es
  | Err _ => [(-1)%Z]
  | Panic _ => [(-2)%Z]
  end.

(* witness shapes used by the build/parse operation *)
Definition control_block : bytes := 192 :: repeat 7 32.
Definition witness_of (mode : Z) (script : bytes) : list bytes :=
  match mode with
  | 0%Z => [script; []]
  | 1%Z => [script; control_block; [80; 1]]        (* with annex *)
  | 2%Z => [script]                                 (* key path *)
  | 3%Z => [script; [80]]                           (* key path with annex *)
  | _ => [[7]; script; control_block]               (* extra stack element before the script *)
  end.

Definition ENV_CONSTANTS : list N :=
  PROTOCOL_ID ++ [MAX_SCRIPT_ELEMENT_SIZE; TAG_CONTENT_TYPE; TAG_CONTENT_ENCODING; TAG_METAPROTOCOL; TAG_PARENT;
    TAG_DELEGATE; TAG_POINTER; TAG_METADATA; TAG_RUNE; TAG_PROPERTIES; TAG_PROPERTY_ENCODING].

(* Wire:  0 mode (lp pre) k insc..     build the batch reveal script after [pre], parse witness_of mode
          1 n (m (lp elem)..)..        parse a transaction given by the witnesses of its n inputs
          2 p                          pointer_value p, then pointer of it
          3 bytes..                    pointer of raw bytes
          4 txid(32) index             InscriptionId::value
          5 bytes..                    InscriptionId::from_value
          9                            constants *)
Definition run_C27 (inp : list Z) : list Z :=
  match inp with
  | 0%Z :: mode :: r =>
    let '(pre, r1) := read_lp r in
    let '(k, r2) := read_count r1 in
    let '(is, _) := read_n_insc k r2 in
    match batch_reveal_script pre is with
    | Ok script => write_lp script ++ write_envs (from_transaction [witness_of mode script])
    | Err _ => [(-1)%Z]
    | Panic _ => [(-2)%Z]
    end
  | 1%Z :: r =>
    let '(n, r1) := read_count r in
    let '(ws, _) := read_n_witness n r1 in
    write_envs (from_transaction ws)
  | 2%Z :: p :: nil =>
    let v := pointer_value (nZ p) in
    write_lp v ++ write_opt (pointer_of v)
  | 3%Z :: bs => write_opt (pointer_of (ns bs))
  | 4%Z :: r =>
    let '(txid, r1) := take_bytes 32 r in
    match r1 with
    | idx :: _ => write_lp (id_value txid (nZ idx))
    | [] => [(-1)%Z]
    end
  | 5%Z :: bs =>
    match id_from_value (ns bs) with
    | None => [0%Z]
    | Some (txid, idx) => 1%Z :: zs txid ++ [zN idx]
    end
  | 9%Z :: nil => zs ENV_CONSTANTS
  | _ => [(-1)%Z]
  end.
