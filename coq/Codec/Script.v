(* Model of the part of rust-bitcoin 0.32 (blockdata/script) that ord's runestone
   codec relies on:

   - `Script::instructions()` = the `Instructions` iterator with
     `enforce_minimal = false` (instruction.rs `next`, `next_push_data_len`,
     `take_slice_or_kill`, mod.rs `read_uint_iter`):
       byte 0..=75          OP_PUSHBYTES_n: the next n bytes are pushed; fewer than n
                            bytes left = Err(EarlyEndOfScript)
       byte 76 / 77 / 78    OP_PUSHDATA1/2/4: a 1/2/4-byte little-endian length, then that
                            many bytes; missing length bytes or missing data = Err
       any other byte       Instruction::Op(opcode)
     After an error the iterator is killed (returns None for ever); none of our
     callers looks at the iterator after an error, so this is not modelled.
   - `ScriptBuf::push_slice` (owned.rs `push_slice_no_opt`) and
     `Builder::push_opcode`.

   Scripts are `list N` (bytes; the harness only supplies values < 256, the
   functions are total on every N: a value > 78 is "some other opcode").
   Opcode numbers come from Generated.v (translated from the pinned
   rust-bitcoin source). No `N.to_nat` of data-dependent numbers is used on an
   executable path, so that 4-byte push lengths are handled in binary. *)
From OrdV Require Import Base.Prelude Generated.

Definition len {A} (l : list A) : N := N.of_nat (length l).

(* first n elements and the rest, [None] when fewer than n elements exist
   (`if self.data.len() >= len { &data[..len] ... } else { kill; Err }`) *)
Fixpoint take_opt {A} (n : N) (l : list A) : option (list A * list A) :=
  if N.eqb n 0 then Some ([], l) else
  match l with
  | [] => None
  | x :: r =>
    match take_opt (n - 1) r with
    | Some (a, b) => Some (x :: a, b)
    | None => None
    end
  end.

(* first n elements (or all of them) and the rest: `slice.chunks(n)` step *)
Fixpoint split_at {A} (n : N) (l : list A) : list A * list A :=
  if N.eqb n 0 then ([], l) else
  match l with
  | [] => ([], [])
  | x :: r => let (a, b) := split_at (n - 1) r in (x :: a, b)
  end.

(* little-endian value of the length bytes (read_uint_iter; cannot overflow a
   64-bit usize for size <= 4) *)
Fixpoint le_value (d : list N) : N :=
  match d with
  | [] => 0
  | b :: r => b + 256 * le_value r
  end.

Inductive instr := IPush (data : list N) | IOp (op : N).

(* one call of Instructions::next on the remaining bytes *)
Inductive step :=
| SEnd                                  (* None *)
| SErr                                  (* Some(Err(_)) *)
| SInstr (i : instr) (rest : list N).   (* Some(Ok(i)), iterator now at rest *)

Definition push_data (size : N) (bs : list N) : step :=
  match take_opt size bs with
  | None => SErr                                   (* length bytes missing *)
  | Some (lenbytes, r) =>
    match take_opt (le_value lenbytes) r with
    | None => SErr                                 (* data truncated *)
    | Some (d, r') => SInstr (IPush d) r'
    end
  end.

Definition next_instr (bs : list N) : step :=
  match bs with
  | [] => SEnd
  | byte :: rest =>
    if N.leb byte OP_PUSHBYTES_75 then
      match take_opt byte rest with
      | None => SErr
      | Some (d, r) => SInstr (IPush d) r
      end
    else if N.eqb byte OP_PUSHDATA1 then push_data 1 rest
    else if N.eqb byte OP_PUSHDATA2 then push_data 2 rest
    else if N.eqb byte OP_PUSHDATA4 then push_data 4 rest
    else SInstr (IOp byte) rest
  end.

(* the whole iteration, for the direct tie with rust-bitcoin (wire op 2):
   instructions until the end (true) or the first error (false).
   Fuel = number of bytes: every instruction consumes at least one. *)
Fixpoint instructions (fuel : nat) (bs : list N) : list instr * bool :=
  match next_instr bs with
  | SEnd => ([], true)
  | SErr => ([], false)
  | SInstr i rest =>
    match fuel with
    | O => ([], false)
    | S f => let (is, ok) := instructions f rest in (i :: is, ok)
    end
  end.

(* ---- encoder side ---- *)

Definition PANIC_PUSH_4BN : N := 2501.   (* push_slice_no_opt: "tried to put a 4bn+ sized object into a script!" *)

Definition push_slice (data : list N) : Res (list N) :=
  let n := len data in
  if N.ltb n OP_PUSHDATA1 then Ok (n :: data)
  else if N.ltb n 256 then Ok (OP_PUSHDATA1 :: n :: data)
  else if N.ltb n 65536 then Ok (OP_PUSHDATA2 :: n mod 256 :: n / 256 :: data)
  else if N.ltb n 4294967296 then
    Ok (OP_PUSHDATA4 :: n mod 256 :: (n / 256) mod 256 :: (n / 65536) mod 256 :: n / 16777216 :: data)
  else Panic PANIC_PUSH_4BN.

(* slice.chunks(c): consecutive pieces of c elements, the last one possibly
   shorter, none empty.  Fuel = length of the list (enough whenever c > 0;
   c = 0 panics in Rust and is excluded by the caller's constant). *)
Fixpoint chunks_fuel {A} (fuel : nat) (c : N) (l : list A) : list (list A) :=
  match l with
  | [] => []
  | _ :: _ =>
    match fuel with
    | O => []
    | S f => let (a, b) := split_at c l in a :: chunks_fuel f c b
    end
  end.
Definition chunks {A} (c : N) (l : list A) : list (list A) := chunks_fuel (length l) c l.
