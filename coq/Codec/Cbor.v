(* Model of the inscription properties codec of ord (C28):
     src/properties.rs   Properties / Item / Attributes / Traits / Trait: the CBOR that the
                         minicbor derive (#[cbor(map)], n(k) keys, skip_if, nil Options skipped)
                         and the hand-written Encode/Decode impls emit and read back;
                         Properties::{to_inline_cbor, to_packed_cbor, from_cbor}
     src/inscriptions/inscription.rs   encode_properties (candidate choice),
                         properties_cbor (bounded decompression loop)
   Executable, no proofs.
   Scope of the decoder model: definite-length CBOR with the known map keys, i.e. everything
   the encoders above can emit (any head width is read).  Unknown keys (minicbor `skip`),
   indefinite lengths, tags, floats and UTF-8 validation of text are NOT modelled: on such
   input [dec_props] answers None where minicbor may succeed or fail differently.  Arbitrary
   bytes are therefore only covered by the harness oracle, not by this model.
   Strings are their UTF-8 bytes; txids are opaque 32-byte strings.
   Panic tags: 20 to_packed_cbor assert!(txids.is_empty()); 21 assert!(index.is_none());
               22 id.unwrap() *)
From OrdV Require Import Base.Prelude Base.Wire Generated Codec.EnvScript Codec.Envelope.

Definition I64_MAX : N := 9223372036854775807.

(* ------------------------------------------------------------------ heads *)

(* minicbor Encoder::u64 / i64 / map / array / str / bytes: shortest head, big-endian argument *)
Definition enc_head (major n : N) : bytes :=
  let m := major * 32 in
  if n <? 24 then [m + n]
  else if n <? 256 then [m + 24; n]
  else if n <? 65536 then [m + 25; n / 256; n mod 256]
  else if n <? 4294967296 then [m + 26; n / 16777216; (n / 65536) mod 256; (n / 256) mod 256; n mod 256]
  else [m + 27; n / 72057594037927936; (n / 281474976710656) mod 256; (n / 1099511627776) mod 256;
        (n / 4294967296) mod 256; (n / 16777216) mod 256; (n / 65536) mod 256; (n / 256) mod 256; n mod 256].

(* any head width is accepted when reading; additional info 28..31 (reserved, indefinite) is not *)
Definition dec_head (s : bytes) : option (N * N * bytes) :=
  match s with
  | [] => None
  | b :: r =>
    let major := b / 32 in
    let ai := b mod 32 in
    if ai <? 24 then Some (major, ai, r)
    else if ai =? 24 then match r with a :: r' => Some (major, a, r') | _ => None end
    else if ai =? 25 then match r with a :: b0 :: r' => Some (major, a * 256 + b0, r') | _ => None end
    else if ai =? 26 then
      match r with
      | a :: b0 :: c :: d :: r' => Some (major, a * 16777216 + b0 * 65536 + c * 256 + d, r')
      | _ => None end
    else if ai =? 27 then
      match r with
      | a :: b0 :: c :: d :: e :: f :: g :: h :: r' =>
        Some (major, a * 72057594037927936 + b0 * 281474976710656 + c * 1099511627776 + d * 4294967296 +
                     e * 16777216 + f * 65536 + g * 256 + h, r')
      | _ => None end
    else None
  end.

Definition CBOR_NULL : N := 246.
Definition CBOR_FALSE : N := 244.
Definition CBOR_TRUE : N := 245.

(* ------------------------------------------------------------------ data *)

Inductive trait := TBool (b : bool) | TInt (z : Z) | TNull | TStr (s : bytes).

Record attributes := mk_attr { a_title : option bytes; a_traits : list (bytes * trait) }.
Record item := mk_item { it_id : option (bytes * N); it_attrs : attributes; it_index : option N }.
Record properties := mk_props { p_gallery : list item; p_attrs : attributes; p_txids : bytes }.

Definition attr_default : attributes := mk_attr None [].
Definition props_default : properties := mk_props [] attr_default [].

Definition is_none {A} (o : option A) : bool := match o with None => true | Some _ => false end.
Definition attrs_is_default (a : attributes) : bool := andb (is_none (a_title a)) (is_nil (a_traits a)).
Definition props_is_default (p : properties) : bool :=
  andb (is_nil (p_gallery p)) (andb (attrs_is_default (p_attrs p)) (is_nil (p_txids p))).

(* ------------------------------------------------------------------ encoders *)

Definition enc_str (s : bytes) : bytes := enc_head 3 (lenN s) ++ s.
Definition enc_bstr (s : bytes) : bytes := enc_head 2 (lenN s) ++ s.

Definition enc_trait (t : trait) : bytes :=
  match t with
  | TBool b => [if b then CBOR_TRUE else CBOR_FALSE]
  | TInt z => if (0 <=? z)%Z then enc_head 0 (Z.to_N z) else enc_head 1 (Z.to_N (-1 - z))
  | TNull => [CBOR_NULL]
  | TStr s => enc_str s
  end.

Definition enc_entry (nt : bytes * trait) : bytes := enc_str (fst nt) ++ enc_trait (snd nt).
Definition enc_traits (l : list (bytes * trait)) : bytes := enc_head 5 (lenN l) ++ flat_map enc_entry l.

Definition b2n (b : bool) : N := if b then 1 else 0.

Definition enc_attrs (a : attributes) : bytes :=
  let has_title := negb (is_none (a_title a)) in
  let has_traits := negb (is_nil (a_traits a)) in
  enc_head 5 (b2n has_title + b2n has_traits) ++
  (match a_title a with Some s => enc_head 0 CBOR_KEY_ATTRIBUTES_TITLE ++ enc_str s | None => [] end) ++
  (if has_traits then enc_head 0 CBOR_KEY_ATTRIBUTES_TRAITS ++ enc_traits (a_traits a) else []).

Definition enc_item (it : item) : bytes :=
  let has_attrs := negb (attrs_is_default (it_attrs it)) in
  enc_head 5 (b2n (negb (is_none (it_id it))) + b2n has_attrs + b2n (negb (is_none (it_index it)))) ++
  (match it_id it with
   | Some (txid, index) => enc_head 0 CBOR_KEY_ITEM_ID ++ enc_bstr (id_value txid index)
   | None => [] end) ++
  (if has_attrs then enc_head 0 CBOR_KEY_ITEM_ATTRIBUTES ++ enc_attrs (it_attrs it) else []) ++
  (match it_index it with Some n => enc_head 0 CBOR_KEY_ITEM_INDEX ++ enc_head 0 n | None => [] end).

Definition enc_props (p : properties) : bytes :=
  let has_gallery := negb (is_nil (p_gallery p)) in
  let has_attrs := negb (attrs_is_default (p_attrs p)) in
  let has_txids := negb (is_nil (p_txids p)) in
  enc_head 5 (b2n has_gallery + b2n has_attrs + b2n has_txids) ++
  (if has_gallery then enc_head 0 CBOR_KEY_PROPERTIES_GALLERY ++ enc_head 4 (lenN (p_gallery p)) ++
                       flat_map enc_item (p_gallery p) else []) ++
  (if has_attrs then enc_head 0 CBOR_KEY_PROPERTIES_ATTRIBUTES ++ enc_attrs (p_attrs p) else []) ++
  (if has_txids then enc_head 0 CBOR_KEY_PROPERTIES_TXIDS ++ enc_bstr (p_txids p) else []).

(* Properties::to_inline_cbor *)
Definition to_inline (p : properties) : option bytes :=
  if props_is_default p then None else Some (enc_props p).

Fixpoint pack_items (l : list item) : Res (bytes * list item) :=
  match l with
  | [] => Ok ([], [])
  | it :: r =>
    match it_index it with
    | Some _ => Panic 21
    | None =>
      match it_id it with
      | None => Panic 22
      | Some (txid, index) =>
        do '(tx, items) <- pack_items r;
        Ok (txid ++ tx, mk_item None (it_attrs it) (if index =? 0 then None else Some index) :: items)
      end
    end
  end.

(* Properties::to_packed_cbor *)
Definition to_packed (p : properties) : Res (option bytes) :=
  if negb (is_nil (p_txids p)) then Panic 20
  else if props_is_default p then Ok None
  else do '(tx, items) <- pack_items (p_gallery p);
       Ok (Some (enc_props (mk_props items (p_attrs p) tx))).

(* ------------------------------------------------------------------ decoders *)

Definition dec_text (major : N) (s : bytes) : option (bytes * bytes) :=
  match dec_head s with
  | Some (m, n, r) => if m =? major then take_slice n r else None
  | None => None
  end.
Definition dec_str := dec_text 3.
Definition dec_bstr := dec_text 2.

(* impl Decode for Trait *)
Definition dec_trait (s : bytes) : option (trait * bytes) :=
  match s with
  | [] => None
  | b :: r =>
    if b =? CBOR_FALSE then Some (TBool false, r)
    else if b =? CBOR_TRUE then Some (TBool true, r)
    else if b =? CBOR_NULL then Some (TNull, r)
    else match dec_head s with
         | Some (m, n, r') =>
           if m =? 0 then (if n <=? I64_MAX then Some (TInt (Z.of_N n), r') else None)
           else if m =? 1 then (if n <=? I64_MAX then Some (TInt (-1 - Z.of_N n), r') else None)
           else if m =? 3 then
             match take_slice n r' with Some (d, r'') => Some (TStr d, r'') | None => None end
           else None
         | None => None
         end
  end.

(* counted loops: a count larger than the remaining input cannot succeed (every element takes
   at least one byte), so the count is converted to nat only below that bound *)
Definition count_ok (n : N) (s : bytes) : bool := n <=? lenN s.

Fixpoint dec_entries (k : nat) (seen : list bytes) (s : bytes) : option (list (bytes * trait) * bytes) :=
  match k with
  | O => Some ([], s)
  | S k' =>
    match dec_str s with
    | None => None
    | Some (name, r) =>
      if existsb (bytes_eqb name) seen then None      (* DuplicateTrait *)
      else match dec_trait r with
           | None => None
           | Some (t, r') =>
             match dec_entries k' (name :: seen) r' with
             | Some (l, r'') => Some ((name, t) :: l, r'')
             | None => None
             end
           end
    end
  end.

(* impl Decode for Traits *)
Definition dec_traits (s : bytes) : option (list (bytes * trait) * bytes) :=
  match dec_head s with
  | Some (m, n, r) => if andb (m =? 5) (count_ok n r) then dec_entries (N.to_nat n) [] r else None
  | None => None
  end.

Definition dec_key (s : bytes) : option (N * bytes) :=
  match dec_head s with
  | Some (m, k, r) => if m =? 0 then Some (k, r) else None
  | None => None
  end.

Definition is_null_next (s : bytes) : bool := match s with b :: _ => b =? CBOR_NULL | [] => false end.

Fixpoint dec_attr_fields (k : nat) (acc : attributes) (s : bytes) : option (attributes * bytes) :=
  match k with
  | O => Some (acc, s)
  | S k' =>
    match dec_key s with
    | None => None
    | Some (key, r) =>
      if key =? CBOR_KEY_ATTRIBUTES_TITLE then
        if is_null_next r then dec_attr_fields k' (mk_attr None (a_traits acc)) (tl r)
        else match dec_str r with
             | Some (t, r') => dec_attr_fields k' (mk_attr (Some t) (a_traits acc)) r'
             | None => None
             end
      else if key =? CBOR_KEY_ATTRIBUTES_TRAITS then
        match dec_traits r with
        | Some (l, r') => dec_attr_fields k' (mk_attr (a_title acc) l) r'
        | None => None
        end
      else None   (* unknown key: not modelled *)
    end
  end.

Definition dec_attrs (s : bytes) : option (attributes * bytes) :=
  match dec_head s with
  | Some (m, n, r) => if andb (m =? 5) (count_ok n r) then dec_attr_fields (N.to_nat n) attr_default r else None
  | None => None
  end.

Fixpoint dec_item_fields (k : nat) (acc : item) (s : bytes) : option (item * bytes) :=
  match k with
  | O => Some (acc, s)
  | S k' =>
    match dec_key s with
    | None => None
    | Some (key, r) =>
      if key =? CBOR_KEY_ITEM_ID then
        if is_null_next r then dec_item_fields k' (mk_item None (it_attrs acc) (it_index acc)) (tl r)
        else match dec_bstr r with
             | Some (v, r') =>
               match id_from_value v with
               | Some id => dec_item_fields k' (mk_item (Some id) (it_attrs acc) (it_index acc)) r'
               | None => None
               end
             | None => None
             end
      else if key =? CBOR_KEY_ITEM_ATTRIBUTES then
        match dec_attrs r with
        | Some (a, r') => dec_item_fields k' (mk_item (it_id acc) a (it_index acc)) r'
        | None => None
        end
      else if key =? CBOR_KEY_ITEM_INDEX then
        if is_null_next r then dec_item_fields k' (mk_item (it_id acc) (it_attrs acc) None) (tl r)
        else match dec_key r with
             | Some (n, r') =>
               if n <=? U32_MAX then dec_item_fields k' (mk_item (it_id acc) (it_attrs acc) (Some n)) r' else None
             | None => None
             end
      else None
    end
  end.

Definition item_default : item := mk_item None attr_default None.

Definition dec_item (s : bytes) : option (item * bytes) :=
  match dec_head s with
  | Some (m, n, r) => if andb (m =? 5) (count_ok n r) then dec_item_fields (N.to_nat n) item_default r else None
  | None => None
  end.

Fixpoint dec_items (k : nat) (s : bytes) : option (list item * bytes) :=
  match k with
  | O => Some ([], s)
  | S k' =>
    match dec_item s with
    | Some (it, r) =>
      match dec_items k' r with Some (l, r') => Some (it :: l, r') | None => None end
    | None => None
    end
  end.

Fixpoint dec_props_fields (k : nat) (acc : properties) (s : bytes) : option (properties * bytes) :=
  match k with
  | O => Some (acc, s)
  | S k' =>
    match dec_key s with
    | None => None
    | Some (key, r) =>
      if key =? CBOR_KEY_PROPERTIES_GALLERY then
        match dec_head r with
        | Some (m, n, r') =>
          if andb (m =? 4) (count_ok n r') then
            match dec_items (N.to_nat n) r' with
            | Some (l, r'') => dec_props_fields k' (mk_props l (p_attrs acc) (p_txids acc)) r''
            | None => None
            end
          else None
        | None => None
        end
      else if key =? CBOR_KEY_PROPERTIES_ATTRIBUTES then
        match dec_attrs r with
        | Some (a, r') => dec_props_fields k' (mk_props (p_gallery acc) a (p_txids acc)) r'
        | None => None
        end
      else if key =? CBOR_KEY_PROPERTIES_TXIDS then
        match dec_bstr r with
        | Some (t, r') => dec_props_fields k' (mk_props (p_gallery acc) (p_attrs acc) t) r'
        | None => None
        end
      else None
    end
  end.

Definition dec_props (s : bytes) : option properties :=
  match dec_head s with
  | Some (m, n, r) =>
    if andb (m =? 5) (count_ok n r) then
      match dec_props_fields (N.to_nat n) props_default r with Some (p, _) => Some p | None => None end
    else None
  | None => None
  end.

(* from_cbor post-processing: ids rebuilt from the packed txids (32-byte chunks zipped with the
   items), txids and indices cleared, gallery dropped if some id is still missing *)
Fixpoint zip_txids (l : list item) (tx : bytes) : list item :=
  match l with
  | [] => []
  | it :: r =>
    if (length tx <? 32)%nat then l
    else mk_item (Some (firstn 32 tx, match it_index it with Some n => n | None => 0 end))
                 (it_attrs it) (it_index it) :: zip_txids r (skipn 32 tx)
  end.

Definition post_process (p : properties) : properties :=
  let g := map (fun it => mk_item (it_id it) (it_attrs it) None) (zip_txids (p_gallery p) (p_txids p)) in
  mk_props (if existsb (fun it => is_none (it_id it)) g then [] else g) (p_attrs p) [].

(* Properties::from_cbor *)
Definition from_cbor (s : bytes) : properties :=
  post_process (match dec_props s with Some p => p | None => props_default end).

(* ------------------------------------------------------------------ encode_properties: candidate choice *)

(* candidates.into_iter().min_by_key(len): index of the first candidate of minimal length *)
Fixpoint first_min (best_i best : N) (i : N) (lens : list N) : N :=
  match lens with
  | [] => best_i
  | n :: r => if n <? best then first_min i n (i + 1) r else first_min best_i best (i + 1) r
  end.
Definition choose (lens : list N) : option N :=
  match lens with [] => None | n :: r => Some (first_min 0 n 1 r) end.

(* ------------------------------------------------------------------ properties_cbor: bounded decompression *)

Definition decompress_max (value_len : N) : N :=
  N.min (value_len * MAX_PROPERTIES_COMPRESSION_RATIO) MAX_COMPRESSED_PROPERTIES_SIZE.

(* The decompressor is an arbitrary stream of read() results: non-empty chunks, then either
   end of stream (a read of 0 bytes) or an error.  An empty chunk in the list is a read of 0. *)
Fixpoint decompress_loop (max : N) (acc : bytes) (chunks : list bytes) (err_at_end : bool) : option bytes :=
  match chunks with
  | [] => if err_at_end then None else Some acc
  | c :: r =>
    if is_nil c then Some acc                                (* n == 0: break *)
    else if max <? lenN acc + lenN c then None                (* value.len() + n > max *)
    else decompress_loop max (acc ++ c) r err_at_end
  end.

(* properties_cbor: [encoding] is the property_encoding field *)
Definition properties_cbor (value : bytes) (encoding : option bytes) (chunks : list bytes) (err_at_end : bool)
  : option bytes :=
  match encoding with
  | None => Some value
  | Some e =>
    if bytes_eqb e BROTLI then decompress_loop (decompress_max (lenN value)) [] chunks err_at_end
    else None
  end.

(* compress_properties: the two `ensure!`s on a cbor of [len] bytes compressed to [clen] bytes *)
Definition compress_accepts (len clen : N) : bool :=
  andb (len <=? MAX_COMPRESSED_PROPERTIES_SIZE) (len <=? clen * MAX_PROPERTIES_COMPRESSION_RATIO).

(* The same loop on lengths only (what the decision depends on): used by the wire entry for
   multi-megabyte streams; Proofs/Cbor_proofs.v shows it is the length of [decompress_loop]. *)
Fixpoint decompress_len (max acc : N) (sizes : list N) (err_at_end : bool) : option N :=
  match sizes with
  | [] => if err_at_end then None else Some acc
  | n :: r =>
    if n =? 0 then Some acc
    else if max <? acc + n then None
    else decompress_len max (acc + n) r err_at_end
  end.

Definition properties_cbor_len (value_len : N) (encoding : option bytes) (sizes : list N) (err_at_end : bool)
  : option N :=
  match encoding with
  | None => Some value_len
  | Some e =>
    if bytes_eqb e BROTLI then decompress_len (decompress_max value_len) 0 sizes err_at_end
    else None
  end.

(* ------------------------------------------------------------------ wire *)

Definition read_trait (l : list Z) : trait * list Z :=
  match l with
  | 0%Z :: b :: r => (TBool (negb (Z.eqb b 0)), r)
  | 1%Z :: z :: r => (TInt z, r)
  | 2%Z :: r => (TNull, r)
  | _ :: r => let '(s, r') := read_lp r in (TStr s, r')
  | [] => (TNull, [])
  end.

Fixpoint read_entries (k : nat) (l : list Z) : list (bytes * trait) * list Z :=
  match k with
  | O => ([], l)
  | S k' =>
    let '(name, r) := read_lp l in
    let '(t, r1) := read_trait r in
    let '(es, r2) := read_entries k' r1 in ((name, t) :: es, r2)
  end.

Definition read_attrs (l : list Z) : attributes * list Z :=
  let '(title, r) := read_optb l in
  let '(k, r1) := read_count r in
  let '(es, r2) := read_entries k r1 in (mk_attr title es, r2).

Definition read_item (l : list Z) : item * list Z :=
  let '(txid, r) := take_bytes 32 l in
  match r with
  | idx :: r1 => let '(a, r2) := read_attrs r1 in (mk_item (Some (txid, nZ idx)) a None, r2)
  | [] => (item_default, [])
  end.

Fixpoint read_items (k : nat) (l : list Z) : list item * list Z :=
  match k with
  | O => ([], l)
  | S k' => let '(it, r) := read_item l in let '(its, r') := read_items k' r in (it :: its, r')
  end.

Definition read_props (l : list Z) : properties :=
  let '(k, r) := read_count l in
  let '(its, r1) := read_items k r in
  let '(a, _) := read_attrs r1 in mk_props its a [].

Definition write_trait (t : trait) : list Z :=
  match t with
  | TBool b => [0%Z; zb b]
  | TInt z => [1%Z; z]
  | TNull => [2%Z]
  | TStr s => 3%Z :: write_lp s
  end.

Definition write_attrs (a : attributes) : list Z :=
  write_optb (a_title a) ++ zN (lenN (a_traits a)) ::
  flat_map (fun nt => write_lp (fst nt) ++ write_trait (snd nt)) (a_traits a).

Definition write_item (it : item) : list Z :=
  (match it_id it with Some (t, i) => 1%Z :: zs t ++ [zN i] | None => [0%Z] end) ++
  write_attrs (it_attrs it) ++ write_opt (it_index it).

Definition write_props (p : properties) : list Z :=
  zN (lenN (p_gallery p)) :: flat_map write_item (p_gallery p) ++ write_attrs (p_attrs p) ++ write_lp (p_txids p).

Definition write_optb_res (r : Res (option bytes)) : option (list Z) :=
  match r with Ok o => Some (write_optb o) | _ => None end.

Fixpoint read_chunk_sizes (l : list Z) : list bytes :=
  match l with [] => [] | n :: r => repeat 0 (Z.to_nat n) :: read_chunk_sizes r end.

Definition C28_CONSTANTS : list N :=
  [MAX_COMPRESSED_PROPERTIES_SIZE; MAX_PROPERTIES_COMPRESSION_RATIO; BROTLI_BUFFER_SIZE] ++ BROTLI.

(* Wire:  0 props              inline cbor, packed cbor, from_cbor of each
          1 (lp value) enc err sizes..  properties_cbor on value with property_encoding enc
                                   (0 | 1 lp) whose decompressor yields chunks of the given sizes and
                                   then ends (err = 0) or fails (err = 1): 0 | 1 len
          3 n lens.. props     index chosen by encode_properties among candidates of these n lengths
          4 ..                 arbitrary bytes to from_cbor: not modelled (S only), answers [0]
          6 props              encode_properties(compress) then properties(): brotli is external, not
                               modelled (S only), answers [0]
          8 bytes..            from_cbor of a crafted properties value (galleries with missing / malformed ids,
                               packed txids of any length): the decoded properties
          7 ..                 as 4 (declared lengths beyond the input; run in a child process), answers [0]
          5 seed b z pad vlen enc err sizes..   as op 1 for a value given by a descriptor (expanded by the
                               harness only); the model runs the loop on lengths: 0 | 1 len
          9                    constants *)
Definition run_C28 (inp : list Z) : list Z :=
  match inp with
  | 0%Z :: r =>
    let p := read_props r in
    match to_packed p with
    | Ok packed =>
      let inline := to_inline p in
      write_optb inline ++ write_optb packed ++
      (match inline with Some b => write_props (from_cbor b) | None => [] end) ++
      (match packed with Some b => write_props (from_cbor b) | None => [] end)
    | _ => [(-2)%Z]
    end
  | 1%Z :: r0 =>
    let '(value, r) := read_lp r0 in
    let '(enc, r1) := read_optb r in
    match r1 with
    | err :: sizes =>
      match properties_cbor value enc (read_chunk_sizes sizes) (negb (Z.eqb err 0)) with
      | Some v => [1%Z; zN (lenN v)]
      | None => [0%Z]
      end
    | [] => [(-1)%Z]
    end
  | 5%Z :: _seed :: _b :: _z :: _pad :: vlen :: r =>
    let '(enc, r1) := read_optb r in
    match r1 with
    | err :: sizes =>
      match properties_cbor_len (nZ vlen) enc (ns sizes) (negb (Z.eqb err 0)) with
      | Some n => [1%Z; zN n]
      | None => [0%Z]
      end
    | [] => [(-1)%Z]
    end
  | 3%Z :: n :: r =>
    match choose (ns (firstn (Z.to_nat n) r)) with Some i => [zN i] | None => [(-1)%Z] end
  | 4%Z :: _ => [0%Z]
  | 6%Z :: _ => [0%Z]
  | 7%Z :: _ => [0%Z]
  | 8%Z :: bs => write_props (from_cbor (ns bs))
  | 9%Z :: nil => zs C28_CONSTANTS
  | _ => [(-1)%Z]
  end.
