(* Small model of the part of rust-bitcoin's script layer that the envelope code uses
   (bitcoin 0.32: blockdata/script/{instruction.rs,owned.rs}, blockdata/witness.rs):
     - Script::instructions()  (non-minimal-tolerant instruction decoding)
     - ScriptBuf::push_slice / push_opcode (what script::Builder emits)
     - Witness::tapscript()    (P2TrSpend::from_witness, leaf script position)
   Bytes are N (the harness only supplies values < 256).  Own model of group
   "envelope"; independent from the runestone group's script model. *)
From OrdV Require Import Base.Prelude.

Inductive instr :=
| IPush (bs : list N)      (* Instruction::PushBytes *)
| IOp (op : N).            (* Instruction::Op(opcode byte) *)

Definition OP_PUSHDATA1 : N := 76.   (* 0x4c *)
Definition OP_PUSHDATA2 : N := 77.
Definition OP_PUSHDATA4 : N := 78.
Definition OP_PUSHNUM_NEG1 : N := 79.  (* 0x4f *)
Definition OP_PUSHNUM_1 : N := 81.     (* 0x51 *)
Definition OP_PUSHNUM_16 : N := 96.    (* 0x60 *)
Definition OP_IF : N := 99.            (* 0x63 *)
Definition OP_ENDIF : N := 104.        (* 0x68 *)
Definition TAPROOT_ANNEX_PREFIX : N := 80. (* 0x50 *)

Definition lenN {A} (l : list A) : N := N.of_nat (length l).

(* take_slice_or_kill: the next [n] bytes or EarlyEndOfScript.  The length test comes
   first so that [N.to_nat n] is only ever computed for n <= length. *)
Definition take_slice (n : N) (s : list N) : option (list N * list N) :=
  if n <=? lenN s then Some (firstn (N.to_nat n) s, skipn (N.to_nat n) s) else None.

(* read_uint_iter for size 1, 2, 4 (little endian) *)
Definition read_uint (size : nat) (s : list N) : option (N * list N) :=
  match size, s with
  | 1%nat, a :: r => Some (a, r)
  | 2%nat, a :: b :: r => Some (a + 256 * b, r)
  | 4%nat, a :: b :: c :: d :: r => Some (a + 256 * b + 65536 * c + 16777216 * d, r)
  | _, _ => None
  end.

(* One step of Instructions::next (enforce_minimal = false).
   None = script error (iterator killed, Err returned). *)
Definition next_instr (byte : N) (rest : list N) : option (instr * list N) :=
  if byte <? OP_PUSHDATA1 then
    match take_slice byte rest with Some (d, r) => Some (IPush d, r) | None => None end
  else if byte =? OP_PUSHDATA1 then
    match read_uint 1 rest with
    | Some (n, r) => match take_slice n r with Some (d, r') => Some (IPush d, r') | None => None end
    | None => None end
  else if byte =? OP_PUSHDATA2 then
    match read_uint 2 rest with
    | Some (n, r) => match take_slice n r with Some (d, r') => Some (IPush d, r') | None => None end
    | None => None end
  else if byte =? OP_PUSHDATA4 then
    match read_uint 4 rest with
    | Some (n, r) => match take_slice n r with Some (d, r') => Some (IPush d, r') | None => None end
    | None => None end
  else Some (IOp byte, rest).

(* The whole instruction stream, or None if any instruction fails to decode.
   Fuel = number of bytes (every step consumes at least one). *)
Fixpoint decode_fuel (fuel : nat) (s : list N) : option (list instr) :=
  match s with
  | [] => Some []
  | byte :: rest =>
    match fuel with
    | O => None
    | S f =>
      match next_instr byte rest with
      | None => None
      | Some (i, r) =>
        match decode_fuel f r with
        | Some l => Some (i :: l)
        | None => None
        end
      end
    end
  end.

Definition decode_script (s : list N) : option (list instr) := decode_fuel (length s) s.

(* ScriptBuf::push_slice_no_opt: length prefix then the raw bytes.
   [None] = panic "tried to put a 4bn+ sized object into a script!" (in ord the conversion
   to &PushBytes `try_into().unwrap()` fails first, for the same sizes). *)
Definition push_prefix (n : N) : option (list N) :=
  if n <? OP_PUSHDATA1 then Some [n]
  else if n <? 256 then Some [OP_PUSHDATA1; n]
  else if n <? 65536 then Some [OP_PUSHDATA2; n mod 256; n / 256]
  else if n <? 4294967296 then
    Some [OP_PUSHDATA4; n mod 256; (n / 256) mod 256; (n / 65536) mod 256; n / 16777216]
  else None.

Definition push_slice (d : list N) : option (list N) :=
  match push_prefix (lenN d) with
  | Some p => Some (p ++ d)
  | None => None
  end.

(* Witness::tapscript (deprecated name; returns the leaf script position):
     0 elements -> None; 1 -> key spend; 2 with annex -> key spend;
     >= 3 with annex -> third to last; otherwise second to last. *)
Definition starts_with_annex (e : list N) : bool :=
  match e with b :: _ => b =? TAPROOT_ANNEX_PREFIX | [] => false end.

Definition tapscript (w : list (list N)) : option (list N) :=
  match rev w with
  | [] => None
  | [_] => None
  | last :: second :: more =>
    if starts_with_annex last then
      match more with
      | [] => None
      | third :: _ => Some third
      end
    else Some second
  end.
