(* Model of the index storage encodings:
     src/index/entry.rs       Entry::{load,store} for SatRange, InscriptionId, RuneId, Rune,
                              RuneEntry, InscriptionEntry, OutPoint, SatPoint, Txid, Header
     src/index.rs             Index::{encode_rune_balance, decode_rune_balance} and the
                              `while i < len { decode(..).unwrap(); i += length }` loops over them
     src/index/utxo_entry.rs  UtxoEntryBuf builders, UtxoEntry::parse, ParsedUtxoEntry
                              accessors, UtxoEntryBuf::merged / empty
   Byte strings are [list N] (every element < 256 where it matters); txids are 32-byte lists.
   Panic tags (all observed as [-2]):
     1  `self.1 - self.0` underflows in SatRange::store           (entry.rs)
     2  value of the wrong fixed length (cannot be written in Rust: [u8; N] is a type)
     3  `.unwrap()` on a varint / conversion error
     4  slice index out of range
     5  `assert!` in a UtxoEntryBuf builder (flag / length / state)
     6  u64 `+=` overflow in total_value (dev profile)
     7  `assert!` in UtxoEntryBuf::merged, `panic!("sat ranges are missing")`, Option::unwrap on None *)
From OrdV Require Import Base.Prelude Base.Wire Codec.Varint.

(* ---------- little-endian byte strings: uN::to_le_bytes / uN::from_le_bytes ---------- *)
Fixpoint le_bytes (k : nat) (n : N) : list N :=
  match k with
  | O => []
  | S k' => n mod 256 :: le_bytes k' (n / 256)
  end.

Fixpoint le_value (bs : list N) : N :=
  match bs with
  | [] => 0
  | b :: r => b + 256 * le_value r
  end.

(* ---------- SatRange = (u64, u64) <-> [u8; 11] ---------- *)
(* fn store(self): base = self.0; delta = self.1 - self.0;
     n = u128::from(base) | (u128::from(delta) << 51); n.to_le_bytes()[0..11]
   (base, delta < 2^64, so n < 2^115: the u128 shift does not lose bits) *)
Definition sat_range_store (r : N * N) : Res (list N) :=
  let '(a, b) := r in
  if b <? a then Panic 1 else
  let delta := b - a in
  let n := N.lor a (N.shiftl delta 51) in
  Ok (firstn 11 (le_bytes 16 n)).

(* fn load([b0..b10]): raw_base = u64::from_le_bytes([b0..b6, 0]); base = raw_base & ((1 << 51) - 1);
     raw_delta = u64::from_le_bytes([b6..b10, 0, 0, 0]); delta = raw_delta >> 3; (base, base + delta)
   base < 2^51, delta < 2^37: `base + delta` cannot overflow u64 *)
Definition sat_range_load (v : list N) : Res (N * N) :=
  match v with
  | [b0; b1; b2; b3; b4; b5; b6; b7; b8; b9; b10] =>
    let raw_base := le_value [b0; b1; b2; b3; b4; b5; b6; 0] in
    let base := N.land raw_base (N.ones 51) in
    let raw_delta := le_value [b6; b7; b8; b9; b10; 0; 0; 0] in
    let delta := N.shiftr raw_delta 3 in
    Ok (base, base + delta)
  | _ => Panic 2
  end.

(* ---------- rune balances: three varints per (RuneId, u128) ---------- *)
Definition balance := ((N * N) * N)%type.   (* ((block, tx), amount) *)

Definition encode_rune_balance (x : balance) : list N :=
  let '((block, tx), bal) := x in
  encode block ++ encode tx ++ encode bal.

Definition encode_rune_balances (l : list balance) : list N :=
  flat_map encode_rune_balance l.

Definition verr_code (e : verr) : N :=
  match e with Overlong => 1 | Overflow => 2 | Unterminated => 3 end.

(* errors: 1..3 = varint::Error, 4 = TryFromIntError (block > u64::MAX or tx > u32::MAX).
   Order as in the source: both id varints are decoded before either is range-checked,
   the amount is decoded last. *)
Definition decode_rune_balance (buf : list N) : Res (balance * N) :=
  match decode buf with
  | inl e => Err (verr_code e)
  | inr (block, block_len) =>
    match decode (skipn (N.to_nat block_len) buf) with
    | inl e => Err (verr_code e)
    | inr (tx, tx_len) =>
      if U64_MAX <? block then Err 4 else
      if U32_MAX <? tx then Err 4 else
      match decode (skipn (N.to_nat (block_len + tx_len)) buf) with
      | inl e => Err (verr_code e)
      | inr (bal, bal_len) => Ok (((block, tx), bal), block_len + tx_len + bal_len)
      end
    end
  end.

(* let mut i = 0; while i < buffer.len() { let (x, length) = decode_rune_balance(&buffer[i..]).unwrap(); i += length; ... }
   Fuel: every iteration consumes at least 3 bytes; length buf is enough. *)
Fixpoint decode_rune_balances (fuel : nat) (buf : list N) : Res (list balance) :=
  match buf with
  | [] => Ok []
  | _ :: _ =>
    match fuel with
    | O => Panic 0
    | S f =>
      match decode_rune_balance buf with
      | Ok (x, len) =>
        do r <- decode_rune_balances f (skipn (N.to_nat len) buf); Ok (x :: r)
      | Err _ => Panic 3
      | Panic t => Panic t
      end
    end
  end.

(* ---------- ids ---------- *)
(* InscriptionId { txid, index } <-> (u128, u128, u32):
   store: (u128::from_le_bytes(txid[..16]), u128::from_le_bytes(txid[16..]), index)
   load : txid = head.to_le_bytes() ++ tail.to_le_bytes() *)
Definition inscription_id_store (id : list N * N) : N * N * N :=
  let '(txid, index) := id in
  (le_value (firstn 16 txid), le_value (skipn 16 txid), index).

Definition inscription_id_load (v : N * N * N) : list N * N :=
  let '(head, tail, index) := v in
  (le_bytes 16 head ++ le_bytes 16 tail, index).

(* RuneId { block, tx } <-> (u64, u32); Rune(u128) <-> u128; Txid <-> [u8; 32]: field copies *)
Definition rune_id_store (id : N * N) : N * N := id.
Definition rune_id_load (v : N * N) : N * N := v.

(* the (u128, u128) representation of a txid used inside RuneEntry (same halves as above) *)
Definition txid_halves (txid : list N) : N * N :=
  (le_value (firstn 16 txid), le_value (skipn 16 txid)).
Definition txid_of_halves (p : N * N) : list N :=
  le_bytes 16 (fst p) ++ le_bytes 16 (snd p).

(* ---------- OutPoint <-> [u8; 36], SatPoint <-> [u8; 44] (consensus encoding) ---------- *)
Definition outpoint_store (o : list N * N) : list N :=
  let '(txid, vout) := o in txid ++ le_bytes 4 vout.

Definition outpoint_load (v : list N) : list N * N :=
  (firstn 32 v, le_value (skipn 32 v)).

Definition satpoint_store (s : (list N * N) * N) : list N :=
  let '(o, offset) := s in outpoint_store o ++ le_bytes 8 offset.

Definition satpoint_load (v : list N) : (list N * N) * N :=
  (outpoint_load (firstn 36 v), le_value (skipn 36 v)).

(* ---------- Header <-> [u8; 80] (rust-bitcoin consensus encoding; field layout only) ----------
   version (i32, here its u32 bit pattern), prev_blockhash, merkle_root, time, bits, nonce *)
Definition header := (N * list N * list N * N * N * N)%type.

Definition header_store (h : header) : list N :=
  let '(version, prev, merkle, time, bits, nonce) := h in
  le_bytes 4 version ++ prev ++ merkle ++ le_bytes 4 time ++ le_bytes 4 bits ++ le_bytes 4 nonce.

Definition header_load (v : list N) : header :=
  (le_value (firstn 4 v), firstn 32 (skipn 4 v), firstn 32 (skipn 36 v),
   le_value (firstn 4 (skipn 68 v)), le_value (firstn 4 (skipn 72 v)), le_value (firstn 4 (skipn 76 v))).

(* ---------- RuneEntry <-> RuneEntryValue ---------- *)
Definition terms := (option N * (option N * option N) * option N * (option N * option N))%type.

Record rune_entry := {
  re_block : N; re_burned : N; re_divisibility : N; re_etching : list N; re_mints : N;
  re_number : N; re_premine : N; re_rune : N; re_spacers : N; re_symbol : option N;
  re_terms : option terms; re_timestamp : N; re_turbo : bool }.

Definition rune_entry_value :=
  (N * N * N * (N * N) * N * N * N * (N * N) * option N * option terms * N * bool)%type.

Definition rune_entry_store (e : rune_entry) : rune_entry_value :=
  (re_block e, re_burned e, re_divisibility e, txid_halves (re_etching e), re_mints e,
   re_number e, re_premine e, (re_rune e, re_spacers e), re_symbol e,
   option_map (fun t : terms => t) (re_terms e), re_timestamp e, re_turbo e).

Definition rune_entry_load (v : rune_entry_value) : rune_entry :=
  let '(block, burned, divisibility, etching, mints, number, premine, (rune, spacers),
        symbol, tms, timestamp, turbo) := v in
  {| re_block := block; re_burned := burned; re_divisibility := divisibility;
     re_etching := txid_of_halves etching; re_mints := mints; re_number := number;
     re_premine := premine; re_rune := rune; re_spacers := spacers; re_symbol := symbol;
     re_terms := option_map (fun t : terms => t) tms; re_timestamp := timestamp; re_turbo := turbo |}.

(* ---------- InscriptionEntry <-> InscriptionEntryValue ---------- *)
Record inscription_entry := {
  ie_charms : N; ie_fee : N; ie_height : N; ie_hidden : bool; ie_id : list N * N;
  ie_number : Z; ie_parents : list N; ie_sat : option N; ie_sequence : N; ie_timestamp : N }.

Definition inscription_entry_value :=
  (N * N * N * bool * (N * N * N) * Z * list N * option N * N * N)%type.

Definition inscription_entry_store (e : inscription_entry) : inscription_entry_value :=
  (ie_charms e, ie_fee e, ie_height e, ie_hidden e, inscription_id_store (ie_id e), ie_number e,
   ie_parents e, option_map (fun s : N => s) (ie_sat e), ie_sequence e, ie_timestamp e).

Definition inscription_entry_load (v : inscription_entry_value) : inscription_entry :=
  let '(charms, fee, height, hidden, id, number, parents, sat, sequence, timestamp) := v in
  {| ie_charms := charms; ie_fee := fee; ie_height := height; ie_hidden := hidden;
     ie_id := inscription_id_load id; ie_number := number; ie_parents := parents;
     ie_sat := option_map (fun s : N => s) sat; ie_sequence := sequence; ie_timestamp := timestamp |}.

(* ---------- UTXO entries ---------- *)
Record cfg := { index_sats : bool; index_addresses : bool; index_inscriptions : bool }.

(* #[cfg(debug_assertions)] enum State *)
Inductive ustate := NeedSats | NeedScriptPubkey | Valid.
Definition ustate_eqb (a b : ustate) : bool :=
  match a, b with
  | NeedSats, NeedSats | NeedScriptPubkey, NeedScriptPubkey | Valid, Valid => true
  | _, _ => false
  end.

Definition ubuf := (list N * ustate)%type.
Definition ubuf_new : ubuf := ([], NeedSats).

(* fn advance_state(&mut self, expected_state, new_state, index) *)
Definition advance_state (c : cfg) (b : ubuf) (expected new : ustate) : Res ubuf :=
  let '(vec, st) := b in
  if negb (ustate_eqb st expected) then Panic 5 else
  let st' := match new with
             | NeedScriptPubkey => if index_addresses c then NeedScriptPubkey else Valid
             | s => s
             end in
  Ok (vec, st').

Inductive uop :=
| OpValue (value : N)
| OpSatRanges (raw : list N)
| OpScript (script : list N)
| OpInscriptions (raw : list N)
| OpInscription (sequence_number offset : N).

Definition len (l : list N) : N := N.of_nat (length l).

Definition push (c : cfg) (b : ubuf) (op : uop) : Res ubuf :=
  let '(vec, st) := b in
  match op with
  | OpValue value =>
    if index_sats c then Panic 5 else
    advance_state c (vec ++ encode value, st) NeedSats NeedScriptPubkey
  | OpSatRanges raw =>
    if negb (index_sats c) then Panic 5 else
    let num := len raw / 11 in
    if negb (num * 11 =? len raw) then Panic 5 else
    advance_state c (vec ++ encode num ++ raw, st) NeedSats NeedScriptPubkey
  | OpScript script =>
    if negb (index_addresses c) then Panic 5 else
    advance_state c (vec ++ encode (len script) ++ script, st) NeedScriptPubkey Valid
  | OpInscriptions raw =>
    if negb (index_inscriptions c) then Panic 5 else
    advance_state c (vec ++ raw, st) Valid Valid
  | OpInscription sequence_number offset =>
    if negb (index_inscriptions c) then Panic 5 else
    advance_state c (vec ++ le_bytes 4 sequence_number ++ encode offset, st) Valid Valid
  end.

Fixpoint push_all (c : cfg) (b : ubuf) (ops : list uop) : Res ubuf :=
  match ops with
  | [] => Ok b
  | op :: r => do b' <- push c b op; push_all c b' r
  end.

(* fn as_ref(&self): assert!(self.state == State::Valid) *)
Definition as_ref (b : ubuf) : Res (list N) :=
  let '(vec, st) := b in if ustate_eqb st Valid then Ok vec else Panic 5.

Definition build_ops (c : cfg) (ops : list uop) : Res (list N) :=
  do b <- push_all c ubuf_new ops; as_ref b.

(* fn empty(index) *)
Definition utxo_empty (c : cfg) : Res (list N) :=
  build_ops c ((if index_sats c then [OpSatRanges []] else [OpValue 0]) ++
               (if index_addresses c then [OpScript []] else [])).

(* struct ParsedUtxoEntry { sats: Ranges(&[u8]) | Value(u64), script_pubkey, inscriptions } *)
Record parsed := {
  p_ranges : option (list N);   (* Sats::Ranges *)
  p_value : N;                  (* Sats::Value (0 when ranges) *)
  p_script : option (list N);
  p_inscriptions : option (list N) }.

Definition slice (bs : list N) (from to : N) : Res (list N) :=
  if (to <? from) || (len bs <? to) then Panic 4
  else Ok (firstn (N.to_nat (to - from)) (skipn (N.to_nat from) bs)).

Definition decode_unwrap (bs : list N) : Res (N * N) :=
  match decode bs with inl _ => Panic 3 | inr r => Ok r end.

(* fn parse(&self, index).  usize = u64: `try_into().unwrap()` panics above u64::MAX;
   `num * 11` / `offset + len` overflow panics in the dev profile, and without overflow the
   slice is out of range for any real buffer, so both are the one test [len bs <? to]. *)
Definition parse (c : cfg) (bs : list N) : Res parsed :=
  do '(ranges, value, offset) <-
    (if index_sats c then
       do '(num, vlen) <- decode_unwrap bs;
       if U64_MAX <? num then Panic 3 else
       do r <- slice bs vlen (vlen + num * 11);
       Ok (Some r, 0, vlen + num * 11)
     else
       do '(value, vlen) <- decode_unwrap bs;
       if U64_MAX <? value then Panic 3 else
       Ok (None, value, vlen));
  do '(script, offset) <-
    (if index_addresses c then
       do '(slen, vlen) <- decode_unwrap (skipn (N.to_nat offset) bs);
       if U64_MAX <? slen then Panic 3 else
       do s <- slice bs (offset + vlen) (offset + vlen + slen);
       Ok (Some s, offset + vlen + slen)
     else Ok (None, offset));
  Ok {| p_ranges := ranges; p_value := value; p_script := script;
        p_inscriptions := if index_inscriptions c then Some (skipn (N.to_nat offset) bs) else None |}.

(* ranges.chunks_exact(11).map(SatRange::load) *)
Fixpoint load_ranges (fuel : nat) (raw : list N) : Res (list (N * N)) :=
  match fuel with
  | O => Ok []
  | S f =>
    if len raw <? 11 then Ok [] else
    do r <- sat_range_load (firstn 11 raw);
    do rest <- load_ranges f (skipn 11 raw);
    Ok (r :: rest)
  end.
Definition ranges_of (raw : list N) : Res (list (N * N)) := load_ranges (length raw) raw.

(* fn total_value(&self): value += range.1 - range.0 (u64, dev profile) *)
Fixpoint sum_ranges (acc : N) (l : list (N * N)) : Res N :=
  match l with
  | [] => Ok acc
  | (a, b) :: r => if U64_MAX <? acc + (b - a) then Panic 6 else sum_ranges (acc + (b - a)) r
  end.

Definition total_value (p : parsed) : Res N :=
  match p_ranges p with
  | None => Ok (p_value p)
  | Some raw => do l <- ranges_of raw; sum_ranges 0 l
  end.

(* fn parse_inscriptions(&self): while byte_offset < len { u32 LE; varint; u64::try_from } *)
Fixpoint parse_inscription_list (fuel : nat) (raw : list N) : Res (list (N * N)) :=
  match raw with
  | [] => Ok []
  | _ :: _ =>
    match fuel with
    | O => Panic 0
    | S f =>
      if len raw <? 4 then Panic 4 else
      let sequence_number := le_value (firstn 4 raw) in
      do '(offset, vlen) <- decode_unwrap (skipn 4 raw);
      if U64_MAX <? offset then Panic 3 else
      do r <- parse_inscription_list f (skipn (4 + N.to_nat vlen) raw);
      Ok ((sequence_number, offset) :: r)
    end
  end.

(* the logical content of an entry under a configuration *)
Record utxo := {
  u_ranges : list (N * N);       (* index_sats *)
  u_value : N;                   (* total value *)
  u_script : list N;             (* index_addresses *)
  u_inscriptions : list (N * N)  (* index_inscriptions: (sequence number, offset) *) }.

(* everything the accessors give back (the observation of the harness) *)
Definition read_entry (c : cfg) (bs : list N) : Res utxo :=
  do p <- parse c bs;
  do value <- total_value p;
  do ranges <- match p_ranges p with Some raw => ranges_of raw | None => Ok [] end;
  do ins <- match p_inscriptions p with
            | Some raw => parse_inscription_list (length raw) raw
            | None => Ok []
            end;
  Ok {| u_ranges := ranges; u_value := value;
        u_script := match p_script p with Some s => s | None => [] end;
        u_inscriptions := ins |}.

(* how the updater writes an entry: sats, then script, then one push_inscription per inscription *)
Fixpoint store_ranges (l : list (N * N)) : Res (list N) :=
  match l with
  | [] => Ok []
  | r :: rest => do v <- sat_range_store r; do w <- store_ranges rest; Ok (v ++ w)
  end.

Definition entry_ops (c : cfg) (e : utxo) (raw_ranges : list N) : list uop :=
  (if index_sats c then [OpSatRanges raw_ranges] else [OpValue (u_value e)]) ++
  (if index_addresses c then [OpScript (u_script e)] else []) ++
  (if index_inscriptions c then map (fun p => OpInscription (fst p) (snd p)) (u_inscriptions e) else []).

Definition write_entry (c : cfg) (e : utxo) : Res (list N) :=
  do raw <- store_ranges (u_ranges e);
  build_ops c (entry_ops c e raw).

(* fn merged(a, b, index) *)
Definition is_nil (l : list N) : bool := match l with [] => true | _ => false end.

Definition merged (c : cfg) (a b : list N) : Res (list N) :=
  do pa <- parse c a;
  do pb <- parse c b;
  do ops1 <-
    (if index_sats c then
       match p_ranges pa, p_ranges pb with
       | Some ra, Some rb => Ok [OpSatRanges (ra ++ rb)]
       | _, _ => Panic 7
       end
     else
       do va <- total_value pa;
       if negb (va =? 0) then Panic 7 else
       do vb <- total_value pb;
       if negb (vb =? 0) then Panic 7 else
       Ok [OpValue 0]);
  do ops2 <-
    (if index_addresses c then
       match p_script pa, p_script pb with
       | Some sa, Some sb =>
         if negb (is_nil sa) then Panic 7 else
         if negb (is_nil sb) then Panic 7 else Ok [OpScript []]
       | _, _ => Panic 7
       end
     else Ok []);
  do ops3 <-
    (if index_inscriptions c then
       match p_inscriptions pa, p_inscriptions pb with
       | Some ia, Some ib => Ok [OpInscriptions ia; OpInscriptions ib]
       | _, _ => Panic 7
       end
     else Ok []);
  build_ops c (ops1 ++ ops2 ++ ops3).

(* ---------- wire entry point ---------- *)
Definition panic_line : list Z := [(-2)%Z].

Definition out_res {A} (f : A -> list Z) (r : Res A) : list Z :=
  match r with
  | Ok a => f a
  | Err e => [1%Z; zN e]
  | Panic _ => panic_line
  end.

Fixpoint read_balances (l : list Z) : list balance :=
  match l with
  | b :: t :: a :: r => ((nZ b, nZ t), nZ a) :: read_balances r
  | _ => []
  end.

Definition write_balances (l : list balance) : list Z :=
  flat_map (fun x : balance => let '((b, t), a) := x in [zN b; zN t; zN a]) l.

Definition rd_opt (l : list Z) : option N * list Z := read_opt l.

Definition rd_terms (l : list Z) : option terms * list Z :=
  match l with
  | 0%Z :: r => (None, r)
  | _ :: r =>
    let '(cap, r) := rd_opt r in
    let '(h0, r) := rd_opt r in
    let '(h1, r) := rd_opt r in
    let '(amount, r) := rd_opt r in
    let '(o0, r) := rd_opt r in
    let '(o1, r) := rd_opt r in
    (Some (cap, (h0, h1), amount, (o0, o1)), r)
  | [] => (None, [])
  end.

Definition wr_terms (t : option terms) : list Z :=
  match t with
  | None => [0%Z]
  | Some (cap, (h0, h1), amount, (o0, o1)) =>
    1%Z :: write_opt cap ++ write_opt h0 ++ write_opt h1 ++ write_opt amount ++ write_opt o0 ++ write_opt o1
  end.

Definition hd0 (l : list Z) : N := match l with x :: _ => nZ x | [] => 0 end.
Definition zbool (z : Z) : bool := negb (Z.eqb z 0).

(* rune entry on the wire: block burned divisibility ETCHING mints number premine rune spacers
   symbol(opt) terms timestamp turbo, where ETCHING is 32 bytes (entry) or two u128 (value) *)
Definition run_rune_entry_store (l : list Z) : list Z :=
  match l with
  | block :: burned :: div :: r =>
    let '(etching, r) := take_bytes 32 r in
    match r with
    | mints :: number :: premine :: rune :: spacers :: r =>
      let '(symbol, r) := rd_opt r in
      let '(tms, r) := rd_terms r in
      match r with
      | timestamp :: turbo :: _ =>
        let e := {| re_block := nZ block; re_burned := nZ burned; re_divisibility := nZ div;
                    re_etching := etching; re_mints := nZ mints; re_number := nZ number;
                    re_premine := nZ premine; re_rune := nZ rune; re_spacers := nZ spacers;
                    re_symbol := symbol; re_terms := tms; re_timestamp := nZ timestamp;
                    re_turbo := zbool turbo |} in
        let '(b, bu, d, (e0, e1), m, n, p, (ru, sp), sy, t, ti, tu) := rune_entry_store e in
        [zN b; zN bu; zN d; zN e0; zN e1; zN m; zN n; zN p; zN ru; zN sp] ++ write_opt sy ++
        wr_terms t ++ [zN ti; zb tu]
      | _ => [(-1)%Z]
      end
    | _ => [(-1)%Z]
    end
  | _ => [(-1)%Z]
  end.

Definition run_rune_entry_load (l : list Z) : list Z :=
  match l with
  | block :: burned :: div :: e0 :: e1 :: mints :: number :: premine :: rune :: spacers :: r =>
    let '(symbol, r) := rd_opt r in
    let '(tms, r) := rd_terms r in
    match r with
    | timestamp :: turbo :: _ =>
      let e := rune_entry_load (nZ block, nZ burned, nZ div, (nZ e0, nZ e1), nZ mints, nZ number,
                                nZ premine, (nZ rune, nZ spacers), symbol, tms, nZ timestamp, zbool turbo) in
      [zN (re_block e); zN (re_burned e); zN (re_divisibility e)] ++ zs (re_etching e) ++
      [zN (re_mints e); zN (re_number e); zN (re_premine e); zN (re_rune e); zN (re_spacers e)] ++
      write_opt (re_symbol e) ++ wr_terms (re_terms e) ++ [zN (re_timestamp e); zb (re_turbo e)]
    | _ => [(-1)%Z]
    end
  | _ => [(-1)%Z]
  end.

(* inscription entry on the wire: charms fee height hidden ID number nparents parents.. sat(opt)
   sequence timestamp, where ID is 32 bytes + index (entry) or head tail index (value) *)
Definition run_inscription_entry_store (l : list Z) : list Z :=
  match l with
  | charms :: fee :: height :: hidden :: r =>
    let '(txid, r) := take_bytes 32 r in
    match r with
    | index :: number :: r =>
      let '(parents, r) := read_lp r in
      let '(sat, r) := rd_opt r in
      match r with
      | sequence :: timestamp :: _ =>
        let e := {| ie_charms := nZ charms; ie_fee := nZ fee; ie_height := nZ height;
                    ie_hidden := zbool hidden; ie_id := (txid, nZ index); ie_number := number;
                    ie_parents := parents; ie_sat := sat; ie_sequence := nZ sequence;
                    ie_timestamp := nZ timestamp |} in
        let '(c, f, h, hi, (i0, i1, i2), n, p, s, sq, t) := inscription_entry_store e in
        [zN c; zN f; zN h; zb hi; zN i0; zN i1; zN i2; n] ++ write_lp p ++ write_opt s ++ [zN sq; zN t]
      | _ => [(-1)%Z]
      end
    | _ => [(-1)%Z]
    end
  | _ => [(-1)%Z]
  end.

Definition run_inscription_entry_load (l : list Z) : list Z :=
  match l with
  | charms :: fee :: height :: hidden :: i0 :: i1 :: i2 :: number :: r =>
    let '(parents, r) := read_lp r in
    let '(sat, r) := rd_opt r in
    match r with
    | sequence :: timestamp :: _ =>
      let e := inscription_entry_load (nZ charms, nZ fee, nZ height, zbool hidden, (nZ i0, nZ i1, nZ i2),
                                       number, parents, sat, nZ sequence, nZ timestamp) in
      [zN (ie_charms e); zN (ie_fee e); zN (ie_height e); zb (ie_hidden e)] ++ zs (fst (ie_id e)) ++
      [zN (snd (ie_id e)); ie_number e] ++ write_lp (ie_parents e) ++ write_opt (ie_sat e) ++
      [zN (ie_sequence e); zN (ie_timestamp e)]
    | _ => [(-1)%Z]
    end
  | _ => [(-1)%Z]
  end.

Definition cfg_of (z : Z) : cfg :=
  let n := nZ z in
  {| index_sats := N.testbit n 0; index_addresses := N.testbit n 1; index_inscriptions := N.testbit n 2 |}.

(* ops on the wire: 0 value | 1 len bytes | 2 len bytes | 3 len bytes | 4 seq offset *)
Fixpoint read_ops (fuel : nat) (l : list Z) : list uop :=
  match fuel with
  | O => []
  | S f =>
    match l with
    | 0%Z :: v :: r => OpValue (nZ v) :: read_ops f r
    | 1%Z :: r => let '(b, r') := read_lp r in OpSatRanges b :: read_ops f r'
    | 2%Z :: r => let '(b, r') := read_lp r in OpScript b :: read_ops f r'
    | 3%Z :: r => let '(b, r') := read_lp r in OpInscriptions b :: read_ops f r'
    | 4%Z :: s :: o :: r => OpInscription (nZ s) (nZ o) :: read_ops f r
    | _ => []
    end
  end.

Definition write_pairs (l : list (N * N)) : list Z :=
  zN (N.of_nat (length l)) :: flat_map (fun p : N * N => [zN (fst p); zN (snd p)]) l.

Definition write_utxo (e : utxo) : list Z :=
  [0%Z; zN (u_value e)] ++ write_pairs (u_ranges e) ++ write_lp (u_script e) ++ write_pairs (u_inscriptions e).

Definition run_C35 (inp : list Z) : list Z :=
  match inp with
  | 0%Z :: a :: b :: nil => out_res zs (sat_range_store (nZ a, nZ b))
  | 1%Z :: bs => out_res (fun r : N * N => [zN (fst r); zN (snd r)]) (sat_range_load (ns bs))
  | 2%Z :: l => zs (encode_rune_balances (read_balances l))
  | 3%Z :: bs =>
    out_res (fun r : balance * N => let '(((b, t), a), k) := r in [0%Z; zN b; zN t; zN a; zN k])
            (decode_rune_balance (ns bs))
  | 4%Z :: bs =>
    out_res (fun l => 0%Z :: write_balances l) (decode_rune_balances (length bs) (ns bs))
  | 5%Z :: r =>
    let '(txid, r') := take_bytes 32 r in
    let '(h, t, i) := inscription_id_store (txid, hd0 r') in [zN h; zN t; zN i]
  | 6%Z :: h :: t :: i :: nil =>
    let '(txid, i') := inscription_id_load (nZ h, nZ t, nZ i) in zs txid ++ [zN i']
  | 7%Z :: r => run_rune_entry_store r
  | 8%Z :: r => run_rune_entry_load r
  | 9%Z :: r => run_inscription_entry_store r
  | 10%Z :: r => run_inscription_entry_load r
  | 11%Z :: r =>
    let '(txid, r') := take_bytes 32 r in zs (outpoint_store (txid, hd0 r'))
  | 12%Z :: bs => let '(txid, vout) := outpoint_load (ns bs) in zs txid ++ [zN vout]
  | 13%Z :: r =>
    let '(txid, r') := take_bytes 32 r in
    match r' with
    | vout :: offset :: _ => zs (satpoint_store ((txid, nZ vout), nZ offset))
    | _ => [(-1)%Z]
    end
  | 14%Z :: bs =>
    let '((txid, vout), offset) := satpoint_load (ns bs) in zs txid ++ [zN vout; zN offset]
  | 15%Z :: version :: r =>
    let '(prev, r1) := take_bytes 32 r in
    let '(merkle, r2) := take_bytes 32 r1 in
    match r2 with
    | time :: bits :: nonce :: _ =>
      zs (header_store (nZ version, prev, merkle, nZ time, nZ bits, nZ nonce))
    | _ => [(-1)%Z]
    end
  | 16%Z :: bs =>
    let '(version, prev, merkle, time, bits, nonce) := header_load (ns bs) in
    [zN version] ++ zs prev ++ zs merkle ++ [zN time; zN bits; zN nonce]
  | 17%Z :: b :: t :: nil =>
    let '(b', t') := rune_id_load (rune_id_store (nZ b, nZ t)) in [zN b'; zN t']
  | 20%Z :: flags :: r =>
    out_res (fun v => 0%Z :: zs v) (build_ops (cfg_of flags) (read_ops (length r) r))
  | 21%Z :: flags :: bs => out_res write_utxo (read_entry (cfg_of flags) (ns bs))
  | 22%Z :: flags :: r =>
    let '(a, r') := read_lp r in
    let '(b, _) := read_lp r' in
    out_res (fun v => 0%Z :: zs v) (merged (cfg_of flags) a b)
  | 23%Z :: flags :: nil => out_res (fun v => 0%Z :: zs v) (utxo_empty (cfg_of flags))
  | _ => [(-1)%Z]
  end.
