#!/bin/sh
# coordinator helper: merge a contributor branch, resolving the generated files
cd /verif
b="$1"
git merge --no-edit "$b" >/dev/null 2>&1 || true
git rm -q -f --cached coq/Generated.v coq/_CoqProject coq/.nia.cache 2>/dev/null || true
# append-merge files: union of lines, ours first
for f in known_findings.txt; do
  if git ls-files -u | grep -q "	$f$"; then
    git show :2:$f > /tmp/ours.$$ 2>/dev/null || : > /tmp/ours.$$
    git show :3:$f > /tmp/theirs.$$ 2>/dev/null || : > /tmp/theirs.$$
    cp /tmp/ours.$$ $f
    grep -vxFf /tmp/ours.$$ /tmp/theirs.$$ >> $f || true
    git add $f
  fi
done
# evidence files are rewritten by every run: take theirs
for f in $(git ls-files -u | cut -f2 | sort -u | grep '^evidence/' || true); do git checkout --theirs $f 2>/dev/null; git add $f; done
cp /repo/Cargo.lock harness/Cargo.lock
(cd harness && cargo metadata --offline --format-version 1 >/dev/null 2>&1 || true)
git -C /repo log --oneline | grep "hooks:" | cut -c1-90 | tac > props/hook_commits.txt
git add harness/Cargo.lock props/hook_commits.txt
git ls-files -u | cut -f2 | sort -u
