#!/bin/sh
# coordinator helper: merge a contributor branch, resolving the generated files
set -e
cd /verif
b="$1"
git merge --no-edit "$b" >/dev/null 2>&1 || true
git rm -q -f --cached coq/Generated.v coq/_CoqProject coq/.nia.cache 2>/dev/null || true
git checkout --theirs .gitignore 2>/dev/null || true
git checkout HEAD -- .gitignore 2>/dev/null || true
cp /repo/Cargo.lock harness/Cargo.lock
(cd harness && cargo metadata --offline --format-version 1 >/dev/null 2>&1 || true)
git -C /repo log --oneline | grep "hooks:" | cut -c1-90 | tac > props/hook_commits.txt
git add harness/Cargo.lock props/hook_commits.txt
git status --short | grep -E "^(UU|AA|DU|UD) " || true
