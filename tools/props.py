"""Per-property configuration of the check driver."""

# Axioms from Coq's own standard library that may appear under Print Assumptions
# (each use is named in the evidence file); anything else breaks the check.
ALLOWED_AXIOMS = {
    "functional_extensionality_dep",   # Coq.Logic.FunctionalExtensionality (Program Fixpoint / Equations)
    "proof_irrelevance", "classic", "JMeq_eq", "eq_rect_eq",
}

ORDINALS_TRUST = ["rust-bitcoin script/opcode types used by crates/ordinals are exercised, not modelled, unless the model file says otherwise"]

PROPS = {
    "C26": dict(
        harness="hx-ordinals", group="x_ordinals", model_module="Codec.Varint",
        theorems=["C26_roundtrip", "C26_decode_exact", "C26_decode_errors"],
        rule="encode: all 2^k, 2^k±1, MAX + random u128 of every bit width; decode: all byte strings of length <= 2 exhaustively, "
             "random strings up to 24 bytes biased to continuation bits, encodings followed by junk; distinct = distinct case lines, "
             "non-trivial = everything except the empty string",
        level_text="Full proof on the model: round trip for every n < 2^128 with any trailing bytes, length 1..19; every Ok result of decode is exactly the value and length of the first terminated group and < 2^128; each error kind characterised. Model tied to the code by differential execution on >100k cases per run (all short strings exhaustively).",
        level_note="Trusted: Coq kernel, extraction (ExtrOcamlBasic), the harness; the hand-written model of varint.rs is validated against the code only on the generated cases.",
        modelled="crates/ordinals/src/varint.rs encode_to_vec/encode/decode are modelled in coq/Codec/Varint.v (hand-written); u128 wrap-around of `n |= value << 7i` cannot occur because the 19th byte is range-checked first (proved: result < 2^128)",
    ),
}

# properties not claimed, with reason (everything not in PROPS and not listed here gets a default reason)
NOT_CLAIMED = {}

# commits in /repo that add guarded hooks
HOOK_COMMITS = []
