"""Per-property configuration of the check driver: one JSON file per claimed
property under /verif/props/, plus shared tables."""
import json, os, glob

ROOT = os.path.dirname(os.path.dirname(os.path.abspath(__file__)))

# Axioms from Coq's own standard library that may appear under Print Assumptions
# (each use is named in the evidence file); anything else breaks the check.
ALLOWED_AXIOMS = {
    "functional_extensionality_dep",   # Coq.Logic.FunctionalExtensionality (Program Fixpoint / Equations)
    "functional_extensionality",
    "proof_irrelevance", "classic", "JMeq_eq", "eq_rect_eq", "Eqdep.Eq_rect_eq.eq_rect_eq",
}

PROPS = {}
for f in sorted(glob.glob(os.path.join(ROOT, "props", "C*.json"))):
    PROPS[os.path.basename(f)[:-5]] = json.load(open(f))

# properties not claimed, with reason (everything not in PROPS and not listed here gets a default reason)
NOT_CLAIMED = {}
p = os.path.join(ROOT, "props", "not_claimed.json")
if os.path.exists(p):
    NOT_CLAIMED = json.load(open(p))

# commits in /repo that add guarded hooks
HOOK_COMMITS = []
p = os.path.join(ROOT, "props", "hook_commits.txt")
if os.path.exists(p):
    HOOK_COMMITS = [l.split()[0] for l in open(p) if l.strip() and not l.startswith("#")]
