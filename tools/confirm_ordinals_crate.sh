#!/bin/sh
# Development aid (round 4): confirm a seeded change that touches crates/ordinals only, in the author's
# scratch worktree /tmp/mut-<Cxx> (out/demo.rs, change applied):  tools/confirm_ordinals_crate.sh <Cxx> <seeded-id>
p=$1; id=$2; wt=/tmp/mut-$p; out=/verif/seeded/$id/confirm.txt
cd $wt/crates/ordinals || exit 1
export CARGO_NET_OFFLINE=true CARGO_TARGET_DIR=$wt/target
mkdir -p tests; cp $wt/out/demo.rs tests/demo_$p.rs
echo "## confirm $id $(date -u +%FT%TZ): WITH change: cargo test --offline (crates/ordinals, all targets incl. demo)" > $out
git diff --stat -- src >> $out
cargo test --offline 2>&1 | grep -E "^test result|FAILED|panicked|Running|^error" >> $out
git stash -q; echo "## WITHOUT change: cargo test --offline --test demo_$p" >> $out
cargo test --offline --test demo_$p 2>&1 | grep -E "^test result|FAILED|panicked|^error" >> $out
git stash pop -q; rm -rf tests; cat $out
