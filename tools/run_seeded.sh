#!/bin/sh
# Development aid: run the check(s) of the property a seeded change breaks against a
# scratch copy of /repo with that change applied (never touches /repo itself).
#   tools/run_seeded.sh <seeded-id> [property ...]
# Writes /verif/seeded/<seeded-id>/result.txt (+ the replay file the check produced).
cd /verif
id="$1"; shift
d=seeded/$id
props="$*"
[ -n "$props" ] || props=$(python3 -c "import json;print(json.load(open('$d/meta.json'))['property'].split()[0].strip(',;'))")
wt=/tmp/seeded-wt
if [ -d $wt ]; then
  git -C $wt checkout -q -- . ; git -C $wt clean -qfd
  git -C $wt checkout -q --detach $(git -C /repo rev-parse HEAD)
else
  git -C /repo worktree add -q --detach $wt HEAD
fi
if ! git -C $wt apply "/verif/$d/patch.diff"; then echo "PATCH DOES NOT APPLY" > $d/result.txt; exit 1; fi
: > $d/result.txt
echo "## /repo HEAD $(git -C /repo rev-parse --short HEAD) + $id/patch.diff, $(date -u +%FT%TZ)" >> $d/result.txt
for p in $props; do
  rm -f replays/${p}_violation.json replays/${p}_broken.json
  echo "== ./check $p --repo $wt" >> $d/result.txt
  ./check $p --repo $wt 2>&1 | tail -6 >> $d/result.txt
  for f in replays/${p}_violation.json replays/${p}_broken.json; do
    [ -f $f ] && cp $f $d/$(basename $f)
  done
done
git -C $wt checkout -q -- . ; git -C $wt clean -qfd
tail -3 $d/result.txt
