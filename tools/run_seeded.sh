#!/bin/sh
# Development aid: run the check of the property a seeded change breaks against a
# scratch copy of /repo with that change applied (never touches /repo itself).
#   tools/run_seeded.sh <seeded-id> [property ...]
# Writes /verif/seeded/<seeded-id>/result.txt.
set -e
cd /verif
id="$1"; shift
d=seeded/$id
props="$*"
[ -n "$props" ] || props=$(python3 -c "import json;print(json.load(open('$d/meta.json'))['property'])")
wt=/tmp/seeded-wt-$id
git -C /repo worktree remove --force $wt 2>/dev/null || true
git -C /repo worktree add -q $wt HEAD
git -C $wt apply "$(pwd)/$d/patch.diff"
: > $d/result.txt
for p in $props; do
  echo "== ./check $p --repo $wt" >> $d/result.txt
  ./check $p --repo $wt >> $d/result.txt 2>&1 || true
  for f in replays/${p}_violation.json replays/${p}_broken.json; do
    [ -f $f ] && cp $f $d/$(basename $f) || true
  done
done
git -C /repo worktree remove --force $wt
tail -4 $d/result.txt
