#!/usr/bin/env python3
"""Regenerates MANIFEST.json from tools/props.py (claimed checks) and
properties.jsonl (everything else goes to not_applicable with its reason)."""
import json, os, sys
ROOT = os.path.dirname(os.path.dirname(os.path.abspath(__file__)))
sys.path.insert(0, os.path.join(ROOT, "tools"))
from props import PROPS, NOT_CLAIMED, HOOK_COMMITS

ids = [json.loads(l)["id"] for l in open(os.path.join(ROOT, "properties.jsonl"))]
checks, na = [], []
for i in ids:
    if i in PROPS:
        s = PROPS[i]
        checks.append({
            "property_id": i,
            "quick_cmd": "./check %s --tier quick" % i,
            "thorough_cmd": "./check %s --tier thorough" % i,
            "evidence_file": "/verif/evidence/%s.json" % i,
            "replay_cmd_template": "./check %s --replay {path}" % i,
            "engine": "rocq-proof+correspondence",
            "level_claimed": {"category": s.get("level", "proof"), "text": s["level_text"], "design_ref": "DESIGN.md §5 " + i},
            "level_note": s["level_note"],
            "technique": s.get("technique", "machine-checked proof in Rocq (Coq 8.16.1) on a hand-written model + checked model/code correspondence (differential execution of the extracted model against the implementation)"),
        })
    else:
        na.append({"property_id": i, "reason": NOT_CLAIMED.get(i, "not yet covered by a check in this revision; planned design in DESIGN.md §5 " + i)})
m = {
    "version": 1,
    "setup_cmd": "./check setup",
    "hooks": {
        "guard": "ordinals_ord_verif",
        "enable": "RUSTFLAGS=\"--cfg ordinals_ord_verif\" (set in /verif/harness/.cargo/config.toml); harness crates depend on /repo by path",
        "baseline_off_cmd": "cd /repo && cargo nextest run --workspace --no-fail-fast --tool-config-file pb:/w/lib/nextest.toml --profile pb --test-threads 8 --offline || cargo test --workspace --no-fail-fast --offline",
        "source_commits": HOOK_COMMITS,
        "add_only": True,
    },
    "engines": [{
        "name": "rocq-proof+correspondence", "path": "/verif/check",
        "serves_properties": [c["property_id"] for c in checks],
        "kind_free_text": "Coq 8.16.1 theorems on hand-written executable models (coq/), constants regenerated from the Rust source (tools/gen_constants.py), models extracted to OCaml and run against the implementation on the same generated cases by Rust harnesses (harness/), with a direct property oracle on the implementation for replays",
    }],
    "checks": checks,
    "notes": "See DESIGN.md. known_findings.txt lists recorded defects and fixed: entries.",
    "not_applicable": na,
}
json.dump(m, open(os.path.join(ROOT, "MANIFEST.json"), "w"), indent=1)
print("MANIFEST.json: %d checks, %d not claimed" % (len(checks), len(na)))
