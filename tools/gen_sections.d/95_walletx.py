"""Translator section for C23 (wallet locks non-cardinal outputs before node funding).

On every run this scans every *.rs file under <REPO>/src (not src/verif, not verif.rs,
items under #[cfg(test)] removed), splits it into `fn` items and, for every fn whose body
CALLS fund_raw_transaction(...), emits the ordered list of actions of that body:
  1 = call of lock_non_cardinal_outputs( that is an unconditional statement of the fn body
      (brace depth 1, bare `receiver.lock_non_cardinal_outputs()?;`),
  3 = any other call of it (inside if / match / closure / larger expression): does not count,
  2 = call of fund_raw_transaction(
(by textual position).  A helper whose body funds without locking first gets a leading 1
only if it has exactly one caller and that caller locks before calling it.

Registers  WALLET_FUND_COMMANDS : list (list N)  and  WALLET_FUND_COMMAND_COUNT : N.
"""
import os
import re

IDENT = r"[A-Za-z_][A-Za-z0-9_]*"
FUND_CALL = re.compile(r"\bfund_raw_transaction\s*\(")
LOCK_CALL = re.compile(r"\block_non_cardinal_outputs\s*\(")
FN_HEAD = re.compile(r"\bfn\s+(" + IDENT + r")")
CFG_TEST = re.compile(r"#\s*\[\s*cfg\s*\(\s*test\s*\)\s*\]")
RAW_OPEN = re.compile(r'r(#*)"')


def _ident_before(text, i):
    """text[i] would continue an identifier (so it is not the `r` of a raw string);
    a lone `b` prefix (byte raw string br"..") does not count."""
    if i == 0:
        return False
    p = text[i - 1]
    if not (p.isalnum() or p == "_"):
        return False
    if p == "b" and (i == 1 or not (text[i - 2].isalnum() or text[i - 2] == "_")):
        return False
    return True


def mask(text):
    """Same-length copy of `text` in which the contents of comments, string literals
    (plain, byte, raw) and char literals are replaced by spaces (newlines kept), so that
    braces, parentheses and identifiers inside them are invisible to the scanners below."""
    out = list(text)
    n = len(text)

    def blank(a, b):
        for k in range(a, min(b, n)):
            if out[k] != "\n":
                out[k] = " "

    i = 0
    while i < n:
        c = text[i]
        if c == "/" and text.startswith("//", i):
            j = text.find("\n", i)
            j = n if j < 0 else j
            blank(i, j)
            i = j
        elif c == "/" and text.startswith("/*", i):
            depth, j = 1, i + 2
            while j < n and depth:
                if text.startswith("/*", j):
                    depth, j = depth + 1, j + 2
                elif text.startswith("*/", j):
                    depth, j = depth - 1, j + 2
                else:
                    j += 1
            blank(i, j)
            i = j
        elif c == "r" and RAW_OPEN.match(text, i) and not _ident_before(text, i):
            m = RAW_OPEN.match(text, i)
            close = '"' + m.group(1)
            start = m.end()
            j = text.find(close, start)
            j = n if j < 0 else j
            blank(start, j)
            i = j + len(close)
        elif c == '"':
            j = i + 1
            while j < n and text[j] != '"':
                j += 2 if text[j] == "\\" else 1
            blank(i + 1, j)
            i = j + 1
        elif c == "'":
            if i + 1 < n and text[i + 1] == "\\":
                j = text.find("'", i + 3)          # '\n' '\'' '\\' '\u{..}' '\x41'
                j = n if j < 0 else j
                blank(i + 1, j)
                i = j + 1
            elif i + 2 < n and text[i + 2] == "'":
                blank(i + 1, i + 2)                # 'a' '{' '"'
                i += 3
            else:
                i += 1                             # lifetime or loop label
        else:
            i += 1
    return "".join(out)


def match_brace(m, open_pos):
    """m: masked text, m[open_pos] == '{'.  Index just after the matching '}' (or None)."""
    depth = 0
    for k in range(open_pos, len(m)):
        ch = m[k]
        if ch == "{":
            depth += 1
        elif ch == "}":
            depth -= 1
            if depth == 0:
                return k + 1
    return None


def item_end(m, pos):
    """End of the item starting at `pos` in masked text: just after the first `;` found
    outside any bracket, or after the first brace-balanced `{...}` block."""
    depth = 0
    k = pos
    while k < len(m):
        ch = m[k]
        if ch in "([":
            depth += 1
        elif ch in ")]":
            depth -= 1
        elif ch == ";" and depth <= 0:
            return k + 1
        elif ch == "{" and depth <= 0:
            e = match_brace(m, k)
            return len(m) if e is None else e
        k += 1
    return len(m)


def strip_test_items(m):
    """Blank every item that carries #[cfg(test)] (test modules, test-only fns/consts/uses).
    Further attributes between the cfg and the item are skipped with it."""
    out = m
    pos = 0
    while True:
        hit = CFG_TEST.search(out, pos)
        if not hit:
            return out
        k = hit.end()
        while True:                      # skip following attributes  #[...]
            a = re.compile(r"\s*#\s*!?\s*\[").match(out, k)
            if not a:
                break
            depth, j = 0, a.end() - 1
            while j < len(out):
                if out[j] == "[":
                    depth += 1
                elif out[j] == "]":
                    depth -= 1
                    if depth == 0:
                        break
                j += 1
            k = j + 1
        e = item_end(out, k)
        out = out[:hit.start()] + re.sub(r"[^\n]", " ", out[hit.start():e]) + out[e:]
        pos = e


def fn_items(m):
    """[(name, body_start, body_end)] for every `fn NAME ... { body }` of masked text m
    (declarations ending in `;` have no body and are skipped; nested fns are listed too)."""
    items = []
    for h in FN_HEAD.finditer(m):
        depth = 0
        k = h.end()
        body = None
        while k < len(m):
            ch = m[k]
            if ch in "([":
                depth += 1
            elif ch in ")]":
                depth -= 1
            elif ch == ";" and depth <= 0:
                break
            elif ch == "{" and depth <= 0:
                body = k
                break
            k += 1
        if body is None:
            continue
        e = match_brace(m, body)
        if e is None:
            continue
        items.append((h.group(1), body, e))
    return items


def is_call(m, start):
    """the match at `start` is a call, not the `fn NAME(` of a definition"""
    return re.search(r"\bfn\s+$", m[max(0, start - 40):start]) is None


RECEIVER = re.compile(r"^((self|Self|" + IDENT + r")\s*(\.|::)\s*)*$")


def unconditional_statement(body, start, end):
    """The call body[start:end) (end = just after the opening parenthesis of its argument
    list) is an expression STATEMENT of the function body itself, executed on every path that
    reaches the text after it:
      - brace depth 1 relative to the fn body (not inside if / match / loop / closure block),
      - nothing but a receiver path (`wallet.`, `self.`, `Self::`) between the previous
        `;` `{` `}` and the call  (so no `if c {`, `c &&`, `let x = if ..`, `|| ..`, `match`),
      - followed, after its balanced argument list, by `;` or `?;`.
    Anything else is reported as conditional (undecided counts as conditional)."""
    depth = 0
    for ch in body[:start]:
        if ch == "{":
            depth += 1
        elif ch == "}":
            depth -= 1
    if depth != 1:
        return False
    k = start - 1
    while k >= 0 and body[k] not in ";{}":
        k -= 1
    if not RECEIVER.match(body[k + 1:start].strip()):
        return False
    d, j = 0, end - 1
    while j < len(body):
        if body[j] == "(":
            d += 1
        elif body[j] == ")":
            d -= 1
            if d == 0:
                break
        j += 1
    return re.match(r"\s*\??\s*;", body[j + 1:]) is not None


def actions_of(body):
    """1 = unconditional lock statement, 3 = lock call that is conditional / nested / part of
    a larger expression (does NOT count as a lock: the Coq decoder drops it), 2 = fund call"""
    acts = []
    for r in LOCK_CALL.finditer(body):
        if is_call(body, r.start()):
            acts.append((r.start(), 1 if unconditional_statement(body, r.start(), r.end()) else 3))
    for r in FUND_CALL.finditer(body):
        if is_call(body, r.start()):
            acts.append((r.start(), 2))
    acts.sort()
    return acts


def scan_repo(g):
    """-> (fns, seen) ; fns = [dict(file, name, body)] over all scanned files,
    seen = set of (relative file, fn name) of every definition (body or not is irrelevant:
    only definitions with a body are listed)."""
    root = os.path.join(g.REPO, "src")
    fns = []
    for dirpath, dirnames, filenames in os.walk(root):
        rel_dir = os.path.relpath(dirpath, g.REPO)
        if rel_dir == os.path.join("src", "verif") or rel_dir.startswith(os.path.join("src", "verif") + os.sep):
            dirnames[:] = []
            continue
        dirnames.sort()
        for fname in sorted(filenames):
            if not fname.endswith(".rs") or fname == "verif.rs":
                continue
            rel = os.path.join(rel_dir, fname)
            with open(os.path.join(dirpath, fname), encoding="utf-8") as fh:
                m = strip_test_items(mask(fh.read()))
            for name, b, e in fn_items(m):
                fns.append({"file": rel, "name": name, "pos": b, "body": m[b:e]})
    return fns


def wallet_fund_commands(g):
    fns = scan_repo(g)
    if not any(f["file"] == os.path.join("src", "fund_raw_transaction.rs") and f["name"] == "fund_raw_transaction"
               for f in fns):
        g.errors.append("src/fund_raw_transaction.rs: definition `fn fund_raw_transaction` not found")
    if not any(f["file"] == os.path.join("src", "wallet.rs") and f["name"] == "lock_non_cardinal_outputs"
               for f in fns):
        g.errors.append("src/wallet.rs: definition `fn lock_non_cardinal_outputs` not found")

    entries = []
    for f in fns:
        acts = actions_of(f["body"])
        if not any(a == 2 for _, a in acts):
            continue
        lst = [a for _, a in acts]
        first_fund = lst.index(2)
        if 1 not in lst[:first_fund]:
            # helper rule: exactly one caller, and that caller locks before the call
            call = re.compile(r"(?<![A-Za-z0-9_])" + re.escape(f["name"]) + r"\s*\(")
            callers = []
            for c in fns:
                if c is f:
                    continue
                sites = [r.start() for r in call.finditer(c["body"]) if is_call(c["body"], r.start())]
                if sites:
                    callers.append((c, sites))
            if len(callers) == 1:
                c, sites = callers[0]
                locks = [r.start() for r in LOCK_CALL.finditer(c["body"])
                         if is_call(c["body"], r.start())
                         and unconditional_statement(c["body"], r.start(), r.end())]
                if locks and all(min(locks) < s for s in sites):
                    lst = [1] + lst
        entries.append((f["file"], f["name"], f["pos"], lst))

    if not entries:
        g.errors.append("src/**/*.rs: no function calling fund_raw_transaction( found "
                        "(C23: the set of node-funded wallet commands is empty)")
        return
    entries.sort(key=lambda e: (e[0], e[1], e[2]))
    term = "[" + "; ".join("[" + "; ".join("%d" % a for a in lst) + "]" for _, _, _, lst in entries) + "]"
    prov = ("functions under src/ whose body calls fund_raw_transaction; per function its calls in textual "
            "order, 1 = unconditional lock_non_cardinal_outputs statement, 3 = conditional/nested lock call (does not count), 2 = fund_raw_transaction: "
            + ", ".join("%s::%s" % (fi, na) for fi, na, _, _ in entries))
    g.defs.append(("WALLET_FUND_COMMANDS", "list (list N)", term, prov))
    g.defs.append(("WALLET_FUND_COMMAND_COUNT", "N", "%d" % len(entries),
                   "number of entries of WALLET_FUND_COMMANDS"))


SECTIONS = [wallet_fund_commands]
