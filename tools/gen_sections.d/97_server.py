"""Translator sections for the explorer server (C18, C19): policy strings, header values,
media table, page sizes, read from src/subcommand/server.rs, server/r.rs, server/error.rs,
server/server_config.rs, inscriptions/media.rs, lib.rs.  Strings become `list N` of their UTF-8 bytes."""
import re

R = "src/subcommand/server/r.rs"
S = "src/subcommand/server.rs"
MEDIA = ["Audio", "Code", "Font", "Iframe", "Image", "Markdown", "Model", "Pdf", "Text", "Unknown", "Video"]


def _bytes(s):
    return list(s.encode("utf8"))


def _lst(bs):
    return "[" + "; ".join("%d" % b for b in bs) + "]"


def _def_bytes(g, name, s, prov):
    g.defListN(name, _bytes(s), prov + " = " + s.replace("*)", "* )"))


def _def_list_bytes(g, name, strs, prov):
    g.defs.append((name, "list (list N)", "[" + "; ".join(_lst(_bytes(s)) for s in strs) + "]", prov))


def content_csp(g):
    body = g.find(R, r"pub\(super\) fn content_response\((.*?)\n\}\n", "content_response body")
    if not body:
        return
    b = body.group(1)
    m = re.search(r"None => \{\s*headers\.insert\(\s*header::CONTENT_SECURITY_POLICY,\s*HeaderValue::from_static\(\"([^\"]*)\"\),\s*\);\s*"
                  r"headers\.append\(\s*header::CONTENT_SECURITY_POLICY,\s*HeaderValue::from_static\(\"([^\"]*)\"\),\s*\);\s*\}", b)
    if not m:
        g.errors.append(R + ": content_response: the two same-origin CSP headers no longer match")
        return
    _def_bytes(g, "CSP_CONTENT_SELF", m.group(1), R + " content_response (csp_origin None, first header)")
    _def_bytes(g, "CSP_CONTENT_STAR", m.group(2), R + " content_response (csp_origin None, second header)")
    paths = re.findall(r"\*:\*(\S+)", m.group(2))
    _def_list_bytes(g, "CSP_PATHS", paths, R + " recursive paths named by the *:* sources")
    m2 = re.search(r"Some\(origin\) => \{\s*let csp = format!\(\s*\"([^\"]*)\"\s*\);\s*headers\.insert\(\s*header::CONTENT_SECURITY_POLICY,\s*"
                   r"HeaderValue::from_str\(&csp\)\.map_err\(\|err\| ServerError::Internal\(Error::from\(err\)\)\)\?,", b)
    if not m2:
        g.errors.append(R + ": content_response: the configured-origin CSP no longer matches")
        return
    fmt = m2.group(1)
    if re.search(r"\{(?!origin\})", fmt):
        g.errors.append(R + ": content_response: unexpected placeholder in the origin CSP format string")
    _def_list_bytes(g, "CSP_ORIGIN_SEGMENTS", fmt.split("{origin}"), R + " content_response format string split at {origin}: " + fmt)
    m3 = re.search(r"HeaderValue::from_static\(if cache \{\s*\"([^\"]*)\"\s*\} else \{\s*\"([^\"]*)\"\s*\}\)", b)
    if not m3:
        g.errors.append(R + ": content_response: cache-control values no longer match")
        return
    _def_bytes(g, "CACHE_IMMUTABLE", m3.group(1), R + " content_response cache = true")
    _def_bytes(g, "CACHE_NO_STORE", m3.group(2), R + " content_response cache = false")
    m4 = re.search(r"\.unwrap_or\(HeaderValue::from_static\(\"([^\"]*)\"\)\)", b)
    if not m4:
        g.errors.append(R + ": content_response: default content type no longer matches")
        return
    _def_bytes(g, "DEFAULT_CONTENT_TYPE", m4.group(1), R + " content_response default content type")
    # order of the decisions inside content_response, as the model assumes it
    order = [b.find("server_config.csp_origin"), b.find("header::CACHE_CONTROL"), b.find("header::CONTENT_TYPE"),
             b.find("accept_encoding.is_acceptable"), b.find("server_config.decompress && content_encoding == BROTLI"),
             b.find("ServerError::NotAcceptable"), b.rfind("inscription.into_body()")]
    if -1 in order or order != sorted(order):
        g.errors.append(R + ": content_response: order of header/encoding/body decisions changed")


def default_csp(g):
    m = g.find(S, r"SetResponseHeaderLayer::if_not_present\(\s*header::CONTENT_SECURITY_POLICY,\s*HeaderValue::from_static\(\"([^\"]*)\"\),\s*\)", "default CSP layer")
    if m:
        _def_bytes(g, "CSP_DEFAULT", m.group(1), S + " Server::run SetResponseHeaderLayer::if_not_present")
    m = g.find("src/lib.rs", r"const BROTLI: &str = \"([^\"]*)\";", "BROTLI")
    if m:
        _def_bytes(g, "BROTLI", m.group(1), "src/lib.rs BROTLI")
    m = g.find("src/subcommand/server/error.rs",
               r"Self::NotFound\(message\) => \(\s*StatusCode::NOT_FOUND,\s*\[\(header::CACHE_CONTROL, HeaderValue::from_static\(\"([^\"]*)\"\)\)\],", "NotFound cache-control")
    if m:
        _def_bytes(g, "NOT_FOUND_CACHE", m.group(1), "src/subcommand/server/error.rs NotFound")
    m = g.find(S, r"async fn clock\(.*?HeaderValue::from_static\(\"([^\"]*)\"\)", "clock CSP")
    if m:
        _def_bytes(g, "CSP_CLOCK", m.group(1), S + " clock")


def media_table(g):
    m = g.find("src/inscriptions/media.rs", r"const TABLE: [^=]*= &\[(.*?)\n  \];", "Media::TABLE")
    if not m:
        return
    rows = re.findall(r"\(\"([^\"]*)\",\s*\w+,\s*(\w+)(?:\(\w+\))?,\s*&\[[^\]]*\]\)", m.group(1))
    nlines = len([l for l in m.group(1).split("\n") if l.strip().startswith("(")])
    if not rows or len(rows) != nlines:
        g.errors.append("src/inscriptions/media.rs: Media::TABLE rows no longer parse (%d of %d)" % (len(rows), nlines))
        return
    for _, k in rows:
        if k not in MEDIA:
            g.errors.append("src/inscriptions/media.rs: unknown media kind " + k)
            return
    term = "[" + "; ".join("(%s, %d)" % (_lst(_bytes(ct)), MEDIA.index(k)) for ct, k in rows) + "]"
    g.defs.append(("MEDIA_TABLE", "list (list N * N)", term,
                   "src/inscriptions/media.rs Media::TABLE (content type, media kind: " + ", ".join("%d %s" % (i, n) for i, n in enumerate(MEDIA)) + ")"))
    g.defN("MEDIA_IFRAME", MEDIA.index("Iframe"), "media kind code of Media::Iframe")
    g.defN("MEDIA_UNKNOWN", MEDIA.index("Unknown"), "media kind code of Media::Unknown")
    # from_str is exact string equality over the table, media() falls back to Unknown
    if not g.find("src/inscriptions/media.rs", r"for entry in Self::TABLE \{\s*if entry\.0 == s \{\s*return Ok\(entry\.2\);", "Media::from_str"):
        return
    c = g.find("src/subcommand/server/server_config.rs", r"let default = match media \{(.*?)\n    \};", "preview_content_security_policy table")
    if not c:
        return
    pol = {}
    for k, v in re.findall(r"Media::(\w+)(?:\(_\))? => \"([^\"]*)\",", c.group(1)):
        pol[k] = v
    if "Media::Iframe => {" not in c.group(1) or "return Err(" not in c.group(1):
        g.errors.append("server_config.rs: Media::Iframe is no longer an error in preview_content_security_policy")
    missing = [k for k in MEDIA if k != "Iframe" and k not in pol]
    if missing:
        g.errors.append("server_config.rs: no preview policy for " + ",".join(missing))
        return
    term = "[" + "; ".join("(%d, %s)" % (MEDIA.index(k), _lst(_bytes(pol[k]))) for k in MEDIA if k != "Iframe") + "]"
    g.defs.append(("PREVIEW_CSP", "list (N * list N)", term, "server_config.rs preview_content_security_policy: " +
                   "; ".join("%s => %s" % (k, pol[k]) for k in MEDIA if k != "Iframe")))
    if not g.find("src/subcommand/server/server_config.rs", r"default\s*\.replace\(\"'self'\", csp_origin\)\s*\.parse\(\)", "preview policy origin substitution"):
        return
    _def_bytes(g, "CSP_SELF_TOKEN", "'self'", "server_config.rs .replace(\"'self'\", csp_origin)")


def page_sizes(g):
    m = g.find(S, r"const PAGE_SIZE: usize = ([0-9_]+);", "PAGE_SIZE")
    if m:
        g.defN("SERVER_PAGE_SIZE", g.num(m.group(1)), S + " PAGE_SIZE")
    src = g.src(R)
    sizes = re.findall(r"index\.get_(?:children_by_sequence_number|parents_by_sequence_number|inscription_ids_by_sat)_paginated\(\s*[^,]+,\s*([0-9_]+),", src)
    if len(sizes) < 5 or len(set(sizes)) != 1:
        g.errors.append(R + ": page sizes of the recursive listings are no longer one constant: %r" % sizes)
        return
    g.defN("RECURSIVE_PAGE_SIZE", g.num(sizes[0]), R + " page size passed to the *_paginated index getters (%d call sites)" % len(sizes))


SECTIONS = [content_csp, default_csp, media_table, page_sizes]
