"""Translator sections of the storage group (C35, C36)."""
import re


def storage_constants(g):
    # domain of the packed sat range: sats below the supply, lengths up to a block subsidy
    m = g.find("crates/ordinals/src/sat.rs", r"pub const SUPPLY: u64 = ([0-9_]+);", "Sat::SUPPLY")
    if m:
        g.defN("STORAGE_SAT_SUPPLY", g.num(m.group(1)), "crates/ordinals/src/sat.rs Sat::SUPPLY")
    m = g.find("crates/ordinals/src/epoch.rs", r"\(([0-9_]+) \* COIN_VALUE\) >> self\.0", "Epoch::subsidy base")
    if m:
        g.defN("STORAGE_SUBSIDY_COINS", g.num(m.group(1)),
               "crates/ordinals/src/epoch.rs Epoch::subsidy: (N * COIN_VALUE) >> epoch")
    m = g.find("crates/ordinals/src/lib.rs", r"pub const COIN_VALUE: u64 = ([0-9_]+);", "COIN_VALUE")
    if m:
        g.defN("STORAGE_COIN_VALUE", g.num(m.group(1)), "crates/ordinals/src/lib.rs COIN_VALUE")
    # bit widths of the packing in SatRange::{load,store}
    m = g.find("src/index/entry.rs", r"let base = raw_base & \(\(1 << ([0-9]+)\) - 1\);", "SatRange::load base mask")
    m2 = g.find("src/index/entry.rs", r"u128::from\(base\) \| \(u128::from\(delta\) << ([0-9]+)\)", "SatRange::store shift")
    m3 = g.find("src/index/entry.rs", r"let delta = raw_delta >> ([0-9]+);", "SatRange::load delta shift")
    m4 = g.find("src/index/entry.rs", r"n\.to_le_bytes\(\)\[0\.\.([0-9]+)\]", "SatRange::store length")
    if m and m2 and m3 and m4:
        g.defListN("STORAGE_SAT_RANGE_PACKING",
                   [g.num(m.group(1)), g.num(m2.group(1)), g.num(m3.group(1)), g.num(m4.group(1))],
                   "src/index/entry.rs SatRange: [load mask bits; store shift; load delta shift; bytes]")


SECTIONS = [storage_constants]
