"""Translator sections of the storage group (C35, C36)."""
import re


def storage_constants(g):
    # domain of the packed sat range: sats below the supply, lengths up to a block subsidy
    m = g.find("crates/ordinals/src/sat.rs", r"pub const SUPPLY: u64 = ([0-9_]+);", "Sat::SUPPLY")
    if m:
        g.defN("STORAGE_SAT_SUPPLY", g.num(m.group(1)), "crates/ordinals/src/sat.rs Sat::SUPPLY")
    m = g.find("crates/ordinals/src/epoch.rs", r"\(([0-9_]+) \* COIN_VALUE\) >> self\.0", "Epoch::subsidy base")
    if m:
        g.defN("STORAGE_SUBSIDY_COINS", g.num(m.group(1)),
               "crates/ordinals/src/epoch.rs Epoch::subsidy: (N * COIN_VALUE) >> epoch")
    m = g.find("crates/ordinals/src/lib.rs", r"pub const COIN_VALUE: u64 = ([0-9_]+);", "COIN_VALUE")
    if m:
        g.defN("STORAGE_COIN_VALUE", g.num(m.group(1)), "crates/ordinals/src/lib.rs COIN_VALUE")
    # bit widths of the packing in SatRange::{load,store}
    m = g.find("src/index/entry.rs", r"let base = raw_base & \(\(1 << ([0-9]+)\) - 1\);", "SatRange::load base mask")
    m2 = g.find("src/index/entry.rs", r"u128::from\(base\) \| \(u128::from\(delta\) << ([0-9]+)\)", "SatRange::store shift")
    m3 = g.find("src/index/entry.rs", r"let delta = raw_delta >> ([0-9]+);", "SatRange::load delta shift")
    m4 = g.find("src/index/entry.rs", r"n\.to_le_bytes\(\)\[0\.\.([0-9]+)\]", "SatRange::store length")
    if m and m2 and m3 and m4:
        g.defListN("STORAGE_SAT_RANGE_PACKING",
                   [g.num(m.group(1)), g.num(m2.group(1)), g.num(m3.group(1)), g.num(m4.group(1))],
                   "src/index/entry.rs SatRange: [load mask bits; store shift; load delta shift; bytes]")


SECTIONS = [storage_constants]


# ---------------------------------------------------------------- C36: settings tables
def _fn_body(text, header):
    """text of the brace-delimited body that follows `header`"""
    i = text.find(header)
    if i < 0:
        return None
    i = text.find("{", i)
    depth, j = 0, i
    while j < len(text):
        if text[j] == "{":
            depth += 1
        elif text[j] == "}":
            depth -= 1
            if depth == 0:
                return text[i + 1:j]
        j += 1
    return None


def _last_self_block(body):
    """body of the last `Self { ... }` struct literal inside a function body"""
    i = body.rfind("Self {")
    if i < 0:
        return None
    return _fn_body(body[i:], "Self")


def _entries(block):
    """split `name: expr, name: expr, ...` on commas at nesting depth 0"""
    out, depth, cur = [], 0, ""
    for ch in block:
        if ch in "([{":
            depth += 1
        elif ch in ")]}":
            depth -= 1
        if ch == "," and depth == 0:
            out.append(cur)
            cur = ""
        else:
            cur += ch
    if cur.strip():
        out.append(cur)
    res = []
    for e in out:
        e = e.strip()
        if not e:
            continue
        m = re.match(r"(\w+)\s*:\s*(.*)$", e, re.S)
        if not m:
            raise ValueError("unreadable struct entry: %r" % e[:60])
        res.append((m.group(1), re.sub(r"\s+", "", m.group(2)).replace(",)", ")").replace(",}", "}")))
    return res


CHAIN_IDS = ["Mainnet", "Regtest", "Signet", "Testnet", "Testnet4"]
CHAIN_FLAG_IDS = ["signet", "regtest", "testnet", "testnet4"]


def settings_tables(g):
    path = "src/settings.rs"
    text = g.src(path)
    # --- struct fields and kinds
    m = re.search(r"pub struct Settings \{(.*?)\n\}", text, re.S)
    if not m:
        g.errors.append(path + ": struct Settings not found")
        return
    fields = re.findall(r"^\s*(\w+): ([^,\n]+),", m.group(1), re.M)
    names = [f for f, _ in fields]
    kinds = []
    for f, ty in fields:
        ty = ty.strip()
        if ty == "bool":
            kinds.append(1)
        elif ty.startswith("Option<HashSet<"):
            kinds.append(2)
        elif ty.startswith("Option<"):
            kinds.append(0)
        else:
            g.errors.append("%s: field %s has unexpected type %s" % (path, f, ty))
            return
    g.defN("SETTINGS_FIELD_COUNT", len(names), path + " struct Settings: " + " ".join(names))
    g.defListN("SETTINGS_KIND", kinds, path + " struct Settings field types: 0 Option<_>, 1 bool, 2 Option<HashSet<_>>")
    for i, n in enumerate(names):
        g.defN("SETTINGS_F_" + n, i, path + " struct Settings field index of " + n)

    def table(fn_header, what, classify):
        body = _fn_body(text, fn_header)
        block = _last_self_block(body) if body else None
        if block is None:
            g.errors.append("%s: %s: body not found" % (path, what))
            return None
        ents = _entries(block)
        if [n for n, _ in ents] != names:
            g.errors.append("%s: %s does not list the struct fields in declaration order" % (path, what))
            return None
        codes = []
        for n, e in ents:
            c = classify(n, e)
            if c is None:
                g.errors.append("%s: %s: unrecognised expression for field %s: %s" % (path, what, n, e[:80]))
                return None
            codes.append(c)
        return codes

    # --- Settings::or : one combinator per field
    def c_or(n, e):
        if e == "self.%s.or(source.%s)" % (n, n):
            return 0
        if e == "self.%s||source.%s" % (n, n):
            return 1
        if e == "Some(self.%s.iter().flatten().chain(source.%s.iter().flatten()).cloned().collect())" % (n, n):
            return 2
        if e == "source.%s.or(self.%s)" % (n, n):
            return 3          # reversed precedence
        if e == "source.%s||self.%s" % (n, n):
            return 1
        if e in ("self.%s" % n, "self.%s.clone()" % n):
            return 5          # source ignored
        if e in ("source.%s" % n, "source.%s.clone()" % n):
            return 6          # self ignored
        if e in ("self.%s&&source.%s" % (n, n), "source.%s&&self.%s" % (n, n)):
            return 7          # conjunction
        return None
    codes = table("pub fn or(self, source: Settings) -> Self", "Settings::or", c_or)
    if codes is not None:
        g.defListN("SETTINGS_OR", codes,
                   path + " Settings::or per field: 0 self.or(source), 1 ||, 2 union, 3 source.or(self), 5 self only, 6 source only, 7 &&")

    # --- Settings::from_options : which fields a flag can set
    chain_flags = []

    def c_opt(n, e):
        if e == "options.%s" % n:
            return 1
        if e == "None":
            return 0
        if n == "chain":
            parts = re.findall(r"options\.(\w+)\.then_some\(Chain::(\w+)\)", e)
            rebuilt = ""
            for k, (fl, ch) in enumerate(parts):
                piece = "options.%s.then_some(Chain::%s)" % (fl, ch)
                rebuilt += piece if k == 0 else ".or(%s)" % piece
            rebuilt += ".or(options.chain_argument)"
            if parts and rebuilt == e and all(fl in CHAIN_FLAG_IDS and ch in CHAIN_IDS for fl, ch in parts):
                chain_flags.extend(parts)
                return 2
        return None
    codes = table("pub fn from_options(options: Options) -> Self", "Settings::from_options", c_opt)
    if codes is not None:
        g.defListN("SETTINGS_FROM_OPTIONS", codes,
                   path + " Settings::from_options per field: 0 None, 1 options.<field>, 2 chain flags then --chain")
        g.defs.append(("SETTINGS_CHAIN_FLAGS", "list (N * N)",
                       "[" + "; ".join("(%d, %d)" % (CHAIN_FLAG_IDS.index(fl), CHAIN_IDS.index(ch)) for fl, ch in chain_flags) + "]",
                       path + " Settings::from_options chain: (flag, chain) in the order of the .or chain; "
                       "flags 0 signet 1 regtest 2 testnet 3 testnet4; chains 0 mainnet 1 regtest 2 signet 3 testnet 4 testnet4"))

    # --- Settings::from_env : which fields an ORD_ variable can set
    def c_env(n, e):
        m2 = re.match(r'(get_bool|get_string|get_path|get_chain|inscriptions|get_u16|get_u32|get_usize)\("([A-Z0-9_]+)"\)(\??)$', e)
        if not m2 or m2.group(2) != n.upper():
            return None
        return {"get_bool": 2, "inscriptions": 3}.get(m2.group(1), 1)
    codes = table("pub fn from_env(env: BTreeMap<String, String>) -> Result<Self>", "Settings::from_env", c_env)
    if codes is not None:
        g.defListN("SETTINGS_FROM_ENV", codes,
                   path + " Settings::from_env per field (key = upper-case field name): 1 value, 2 get_bool (set iff non-empty), 3 inscription list")

    # --- Settings::or_defaults
    consts = []

    def c_def(n, e):
        if e == "self.%s" % n:
            consts.append(0)
            return 0
        m2 = re.match(r"Some\(self\.%s\.unwrap_or\(([0-9_]+)\)\)$" % n, e)
        if m2:
            consts.append(g.num(m2.group(1)))
            return 1
        if e == "None":
            consts.append(0)
            return 2
        if n == "chain" and e == "Some(chain)" and "let chain = self.chain.unwrap_or_default();" in text \
                and re.search(r"#\[default\]\s*(#\[[^\]]*\]\s*)*Mainnet", g.src("src/chain.rs")):
            consts.append(CHAIN_IDS.index("Mainnet"))
            return 1
        if e == "Some(%s)" % n or e.startswith("Some(self.%s.clone().unwrap_or_else(" % n) or e.startswith("Some(matchself.%s{" % n):
            consts.append(0)
            return 3
        return None
    codes = table("pub fn or_defaults(self) -> Result<Self>", "Settings::or_defaults", c_def)
    if codes is not None:
        g.defListN("SETTINGS_DEFAULT_KIND", codes,
                   path + " Settings::or_defaults per field: 0 unchanged, 1 Some(unwrap_or(constant)), 2 None, 3 Some(derived default)")
        g.defListN("SETTINGS_DEFAULT_CONST", consts, path + " Settings::or_defaults constants (kind 1)")

    # --- merge order: sources 0 options, 1 env, 2 config
    body = _fn_body(text, "pub fn merge(options: Options, env: BTreeMap<String, String>) -> Result<Self>") or ""
    flat = re.sub(r"\s+", "", body)
    order = []
    if "letsettings=Settings::from_options(options).or(Settings::from_env(env)?);" in flat:
        order = [0, 1]
    elif "letsettings=Settings::from_env(env)?.or(Settings::from_options(options));" in flat:
        order = [1, 0]
    if order and "letsettings=settings.or(config).or_defaults()?;" in flat:
        order.append(2)
    elif order and "letsettings=config.or(settings).or_defaults()?;" in flat:
        order.insert(0, 2)
    else:
        order = []
    if not order:
        g.errors.append(path + ": Settings::merge: source order not recognised")
    else:
        g.defListN("SETTINGS_MERGE_ORDER", order, path + " Settings::merge: sources in `or` order (0 options, 1 env, 2 config file), then or_defaults")


SECTIONS.append(settings_tables)
