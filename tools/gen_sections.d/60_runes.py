"""Translator sections for the rune indexer model (C08-C11): constants read from
crates/ordinals/src/{rune.rs,runestone.rs,lib.rs}.  All names are prefixed RU_ so that they
cannot collide with other groups' sections."""
import re


def runes_constants(g):
    m = g.find("crates/ordinals/src/runestone.rs", r"pub const COMMIT_CONFIRMATIONS: u16 = ([0-9_]+);", "COMMIT_CONFIRMATIONS")
    if m:
        g.defN("RU_COMMIT_CONFIRMATIONS", g.num(m.group(1)), "crates/ordinals/src/runestone.rs Runestone::COMMIT_CONFIRMATIONS")
    m = g.find("crates/ordinals/src/rune.rs", r"pub const RESERVED: u128 = ([0-9_]+);", "Rune::RESERVED")
    if m:
        g.defN("RU_RESERVED", g.num(m.group(1)), "crates/ordinals/src/rune.rs Rune::RESERVED")
    m = g.find("crates/ordinals/src/rune.rs", r"const UNLOCKED: usize = ([0-9_]+);", "Rune::UNLOCKED")
    if m:
        g.defN("RU_UNLOCKED", g.num(m.group(1)), "crates/ordinals/src/rune.rs Rune::UNLOCKED")
    m = g.find("crates/ordinals/src/rune.rs", r"const UNLOCK_INTERVAL: u32 = SUBSIDY_HALVING_INTERVAL / ([0-9_]+);", "Rune::UNLOCK_INTERVAL")
    # SUBSIDY_HALVING_INTERVAL is re-exported from rust-bitcoin (bitcoin::constants); read it from the
    # vendored crate source when present, else use the consensus value 210_000 (rust-bitcoin is trusted base)
    m2 = g.find("crates/ordinals/src/lib.rs", r"constants::\{[^}]*SUBSIDY_HALVING_INTERVAL", "import of bitcoin::constants::SUBSIDY_HALVING_INTERVAL")
    shi = 210000
    import glob, os
    for f in glob.glob(os.path.expanduser("~/.cargo/registry/src/*/bitcoin-0.32*/src/blockdata/constants.rs")):
        mm = re.search(r"pub const SUBSIDY_HALVING_INTERVAL: u32 = ([0-9_]+);", open(f).read())
        if mm:
            shi = g.num(mm.group(1))
    if m and m2:
        g.defN("RU_SUBSIDY_HALVING_INTERVAL", shi, "bitcoin::constants::SUBSIDY_HALVING_INTERVAL (imported in crates/ordinals/src/lib.rs)")
        g.defN("RU_UNLOCK_INTERVAL", shi // g.num(m.group(1)), "crates/ordinals/src/rune.rs Rune::UNLOCK_INTERVAL = SUBSIDY_HALVING_INTERVAL / %s" % m.group(1))
    m = g.find("crates/ordinals/src/rune.rs", r"const STEPS: &'static \[u128\] = &\[(.*?)\];", "Rune::STEPS")
    if m:
        vals = [g.num(x) for x in m.group(1).split(",") if x.strip()]
        g.defListN("RU_STEPS", vals, "crates/ordinals/src/rune.rs Rune::STEPS")
    # first_rune_height: SUBSIDY_HALVING_INTERVAL * match network { Bitcoin => 4, Regtest => 0, Signet => 0, Testnet => 12, _ => 0 }
    m = g.find("crates/ordinals/src/rune.rs",
               r"pub fn first_rune_height\(network: Network\) -> u32 \{\s*SUBSIDY_HALVING_INTERVAL\s*\*\s*match network \{(.*?)\}", "Rune::first_rune_height")
    if m and m2:
        arms = dict((k.strip(), g.num(v)) for k, v in re.findall(r"(Network::\w+|_)\s*=>\s*([0-9_]+)", m.group(1)))
        for net, name in (("Network::Bitcoin", "MAINNET"), ("Network::Regtest", "REGTEST"),
                          ("Network::Signet", "SIGNET"), ("Network::Testnet", "TESTNET")):
            if net not in arms:
                g.errors.append("rune.rs: first_rune_height has no arm for %s" % net)
            else:
                g.defN("RU_FIRST_RUNE_HEIGHT_" + name, shi * arms[net], "crates/ordinals/src/rune.rs first_rune_height(%s)" % net)
    # the mint-term arithmetic the model mirrors: saturating block + offset in RuneEntry::start/end
    s = g.src("src/index/entry.rs")
    if len(re.findall(r"\.map\(\|offset\| self\.block\.saturating_add\(offset\)\)", s)) != 2:
        g.errors.append("src/index/entry.rs: RuneEntry::start/end no longer use self.block.saturating_add(offset)")


SECTIONS = [runes_constants]
