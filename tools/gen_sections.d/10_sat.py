"""Translator section for the sat group (C29, C30): constants and small tables of
crates/ordinals/src/{sat,epoch,height,degree,rarity,charm}.rs and the two
rust-bitcoin constants they import.  Every pattern that stops matching is a
broken tie (g.errors), never a silent skip."""
import re, os, glob

ORD = "crates/ordinals/src/"


def _need(g, path, pattern, what, flags=re.S):
    m = g.find(path, pattern, what, flags)
    return m


def sat_tables(g):
    # ---- Sat::SUPPLY
    m = _need(g, ORD + "sat.rs", r"pub const SUPPLY: u64 = ([0-9_]+);", "Sat::SUPPLY")
    supply = g.num(m.group(1)) if m else None
    if m:
        g.defN("SAT_SUPPLY", supply, ORD + "sat.rs Sat::SUPPLY")
    m = _need(g, ORD + "sat.rs", r"pub const LAST: Self = Self\(Self::SUPPLY - 1\);", "Sat::LAST = SUPPLY - 1")

    # ---- Epoch::STARTING_SATS
    m = _need(g, ORD + "epoch.rs", r"pub const STARTING_SATS: \[Sat; (\d+)\] = \[(.*?)\];", "Epoch::STARTING_SATS")
    if m and supply is not None:
        n = int(m.group(1))
        items = re.findall(r"Sat\(([^)]*)\)", m.group(2))
        vals = []
        for it in items:
            it = it.strip()
            if it == "Sat::SUPPLY":
                vals.append(supply)
            else:
                vals.append(g.num(it))
        if len(vals) != n:
            g.errors.append("epoch.rs: STARTING_SATS declares %d entries, %d parsed" % (n, len(vals)))
        g.defListN("STARTING_SATS", vals, ORD + "epoch.rs Epoch::STARTING_SATS (Sat::SUPPLY substituted)")

    m = _need(g, ORD + "epoch.rs", r"pub const FIRST_POST_SUBSIDY: Epoch = Self\((\d+)\);", "Epoch::FIRST_POST_SUBSIDY")
    if m:
        g.defN("FIRST_POST_SUBSIDY", int(m.group(1)), ORD + "epoch.rs Epoch::FIRST_POST_SUBSIDY")

    # ---- Epoch::subsidy: (K * COIN_VALUE) >> self.0 below FIRST_POST_SUBSIDY, else 0
    m = _need(g, ORD + "epoch.rs",
              r"pub fn subsidy\(self\) -> u64 \{\s*if self < Self::FIRST_POST_SUBSIDY \{\s*\((\d+) \* COIN_VALUE\) >> self\.0\s*\} else \{\s*0\s*\}\s*\}",
              "Epoch::subsidy body")
    if m:
        g.defN("INITIAL_SUBSIDY_COINS", int(m.group(1)), ORD + "epoch.rs Epoch::subsidy: (K * COIN_VALUE) >> epoch, 0 from FIRST_POST_SUBSIDY on")

    # ---- impl From<Sat> for Epoch: the if-chain `sat < STARTING_SATS[i] -> Epoch(e)` ... else Epoch(d)
    m = _need(g, ORD + "epoch.rs", r"impl From<Sat> for Epoch \{\s*fn from\(sat: Sat\) -> Self \{(.*?)\n  \}\n\}", "impl From<Sat> for Epoch")
    if m:
        body = m.group(1)
        arms = re.findall(r"if sat < Self::STARTING_SATS\[(\d+)\] \{\s*Epoch\((\d+)\)\s*\}", body)
        tail = re.search(r"\} else \{\s*Epoch\((\d+)\)\s*\}\s*$", body)
        # the body must consist of exactly these arms
        skeleton = re.sub(r"\s+", "", body)
        rebuilt = "".join(("" if i == 0 else "else") + "ifsat<Self::STARTING_SATS[%s]{Epoch(%s)}" % a for i, a in enumerate(arms))
        if not tail or skeleton != rebuilt + "else{Epoch(%s)}" % tail.group(1):
            g.errors.append("epoch.rs: From<Sat> for Epoch is no longer a plain if-chain over STARTING_SATS")
        else:
            g.defListN("EPOCH_CHAIN_INDEX", [int(a[0]) for a in arms], ORD + "epoch.rs From<Sat> for Epoch: i of each `sat < STARTING_SATS[i]` arm, in order")
            g.defListN("EPOCH_CHAIN_EPOCH", [int(a[1]) for a in arms], ORD + "epoch.rs From<Sat> for Epoch: Epoch(e) returned by each arm, in order")
            g.defN("EPOCH_CHAIN_ELSE", int(tail.group(1)), ORD + "epoch.rs From<Sat> for Epoch: final else Epoch(e)")

    # ---- rust-bitcoin constants imported by crates/ordinals/src/lib.rs
    _need(g, ORD + "lib.rs", r"constants::\{DIFFCHANGE_INTERVAL, SUBSIDY_HALVING_INTERVAL\}", "import of DIFFCHANGE_INTERVAL/SUBSIDY_HALVING_INTERVAL from bitcoin::constants")
    lock = g.src("Cargo.lock")
    mv = re.search(r'name = "bitcoin"\nversion = "([^"]+)"', lock)
    if not mv:
        g.errors.append("Cargo.lock: bitcoin version not found")
    else:
        ver = mv.group(1)
        cands = glob.glob(os.path.expanduser("~/.cargo/registry/src/*/bitcoin-%s/src/blockdata/constants.rs" % ver))
        if not cands:
            g.errors.append("rust-bitcoin %s sources not found in the cargo registry" % ver)
        else:
            text = open(cands[0]).read()
            for name in ("SUBSIDY_HALVING_INTERVAL", "DIFFCHANGE_INTERVAL"):
                mm = re.search(r"pub const %s: u32 = ([0-9_]+);" % name, text)
                if not mm:
                    g.errors.append("rust-bitcoin %s constants.rs: %s no longer matches" % (ver, name))
                else:
                    g.defN(name, g.num(mm.group(1)), "rust-bitcoin %s src/blockdata/constants.rs %s (locked by /repo/Cargo.lock, imported in crates/ordinals/src/lib.rs)" % (ver, name))

    # ---- Rarity::supply table, in the order of the enum (Common = 0 .. Mythic = 5)
    m = _need(g, ORD + "rarity.rs", r"pub enum Rarity \{(.*?)\}", "enum Rarity")
    if m:
        names = [x.strip() for x in m.group(1).split(",") if x.strip()]
        ms = _need(g, ORD + "rarity.rs", r"pub fn supply\(self\) -> u64 \{\s*match self \{(.*?)\}\s*\}", "Rarity::supply")
        if ms:
            table = dict((k, g.num(v)) for k, v in re.findall(r"Self::(\w+) => ([0-9_]+),", ms.group(1)))
            if sorted(table) != sorted(names):
                g.errors.append("rarity.rs: supply() arms do not cover the enum")
            else:
                g.defListN("RARITY_SUPPLY", [table[n] for n in names], ORD + "rarity.rs Rarity::supply, indexed by discriminant " + " ".join("%s=%d" % (n, i) for i, n in enumerate(names)))
        if names != ["Common", "Uncommon", "Rare", "Epic", "Legendary", "Mythic"]:
            g.errors.append("rarity.rs: enum Rarity order changed: %r" % names)
        # From<Sat> for Rarity: the classification chain
        _need(g, ORD + "rarity.rs",
              r"if hour == 0 && minute == 0 && second == 0 && third == 0 \{\s*Self::Mythic\s*\} else if minute == 0 && second == 0 && third == 0 \{\s*Self::Legendary\s*\} else if minute == 0 && third == 0 \{\s*Self::Epic\s*\} else if second == 0 && third == 0 \{\s*Self::Rare\s*\} else if third == 0 \{\s*Self::Uncommon\s*\} else \{\s*Self::Common\s*\}",
              "From<Sat> for Rarity classification chain")

    # ---- Charm discriminants (bit positions of Sat::charms)
    m = _need(g, ORD + "charm.rs", r"pub enum Charm \{(.*?)\}", "enum Charm")
    if m:
        ch = dict((k, int(v)) for k, v in re.findall(r"(\w+) = (\d+),", m.group(1)))
        for k in ("Coin", "Uncommon", "Rare", "Epic", "Legendary", "Mythic", "Nineball", "Palindrome"):
            if k not in ch:
                g.errors.append("charm.rs: Charm::%s missing" % k)
            else:
                g.defN("CHARM_" + k.upper(), ch[k], ORD + "charm.rs Charm::%s discriminant (flag = 1 << it)" % k)
    _need(g, ORD + "charm.rs", r"pub fn flag\(self\) -> u16 \{\s*1 << self as u16\s*\}", "Charm::flag")

    # ---- literals inside sat.rs methods
    m = _need(g, ORD + "sat.rs", r"self\.n\(\) >= (\d+) \* COIN_VALUE \* (\d+) && self\.n\(\) < (\d+) \* COIN_VALUE \* (\d+)", "Sat::nineball bounds")
    if m:
        a, b, c, d = (int(x) for x in m.groups())
        g.defN("NINEBALL_LO_COINS", a * b, ORD + "sat.rs Sat::nineball lower bound / COIN_VALUE (%d * COIN_VALUE * %d)" % (a, b))
        g.defN("NINEBALL_HI_COINS", c * d, ORD + "sat.rs Sat::nineball upper bound / COIN_VALUE (%d * COIN_VALUE * %d)" % (c, d))
    m = _need(g, ORD + "sat.rs", r"if self < Epoch\((\d+)\)\.starting_sat\(\) && !self\.0\.is_multiple_of\(Epoch\((\d+)\)\.subsidy\(\)\)", "Sat::common fast path")
    if m:
        g.defN("COMMON_FAST_EPOCH_BOUND", int(m.group(1)), ORD + "sat.rs Sat::common fast path: self < Epoch(K).starting_sat()")
        g.defN("COMMON_FAST_EPOCH_DIV", int(m.group(2)), ORD + "sat.rs Sat::common fast path: divisor Epoch(K).subsidy()")
    m = _need(g, ORD + "sat.rs", r'"([a-z]+)"\s*\.chars\(\)\s*\.nth\(\(\(x - 1\) % (\d+)\) as usize\)', "Sat::name alphabet")
    if m:
        g.defListN("NAME_ALPHABET", [ord(c) for c in m.group(1)], ORD + "sat.rs Sat::name alphabet (Unicode scalar values)")
        if int(m.group(2)) != len(m.group(1)):
            g.errors.append("sat.rs: Sat::name modulus differs from alphabet length")
    _need(g, ORD + "sat.rs", r"x = x \* 26 \+ c as u64 - 'a' as u64 \+ 1;", "Sat::from_name step")

    # ---- degree notation separators (Display for Degree and Sat::from_degree)
    m = _need(g, ORD + "degree.rs", r'"\{\}(.)\{\}(.)\{\}(.)\{\}(.)",\s*self\.hour, self\.minute, self\.second, self\.third', "Display for Degree")
    if m:
        seps = [ord(c) for c in m.groups()]
        g.defListN("DEGREE_SEPARATORS", seps, ORD + "degree.rs Display for Degree: separators after hour, minute, second, third")
        s = g.src(ORD + "sat.rs")
        got = [ord(c) for c in re.findall(r"split_once\('(.)'\)", s[s.find("fn from_degree"):s.find("fn from_decimal")])]
        if got != seps:
            g.errors.append("sat.rs: from_degree separators %r differ from Display for Degree %r" % (got, seps))
    _need(g, ORD + "decimal_sat.rs", r'write!\(f, "\{\}\.\{\}", self\.height, self\.offset\)', "Display for DecimalSat")
    _need(g, ORD + "sat.rs", r'format!\("\{\}%", \(self\.0 as f64 / Self::LAST\.0 as f64\) \* 100\.0\)', "Sat::percentile")


SECTIONS = [sat_tables]
