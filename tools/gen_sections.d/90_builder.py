"""Translator section for the wallet transaction builder (C20) and batch planner (C21).
Reads src/wallet/transaction_builder.rs and src/lib.rs."""
import re

TB = "src/wallet/transaction_builder.rs"


def _prod(g, expr):
    """value of a product of integer literals such as `2 * 10_000`"""
    v = 1
    for f in expr.split("*"):
        v *= g.num(f)
    return v


def builder_constants(g):
    for name in ("ADDITIONAL_INPUT_VBYTES", "ADDITIONAL_OUTPUT_VBYTES", "SCHNORR_SIGNATURE_SIZE"):
        m = g.find(TB, r"const %s: usize = ([0-9_]+);" % name, name)
        if m:
            g.defN("TB_" + name, g.num(m.group(1)), "%s TransactionBuilder::%s" % (TB, name))
    m = g.find(TB, r"const MAX_POSTAGE: Amount = Amount::from_sat\(([0-9_ *]+)\);", "MAX_POSTAGE")
    if m:
        g.defN("TB_MAX_POSTAGE", _prod(g, m.group(1)), TB + " TransactionBuilder::MAX_POSTAGE")
    m = g.find("src/lib.rs", r"const TARGET_POSTAGE: Amount = Amount::from_sat\(([0-9_ *]+)\);", "TARGET_POSTAGE")
    if m:
        g.defN("TB_TARGET_POSTAGE", _prod(g, m.group(1)), "src/lib.rs TARGET_POSTAGE")
    # the dummy witness used by estimate_vbytes_with and by build must be one element of
    # SCHNORR_SIGNATURE_SIZE bytes (the vsize model depends on it)
    g.find(TB, r"witness: Witness::from_slice\(&\[&\[0; Self::SCHNORR_SIGNATURE_SIZE\]\]\)", "dummy witness in estimate_vbytes_with")
    m = g.find(TB, r"input\.witness = Witness::from_slice\(&\[&\[0; ([0-9]+)\]\]\);", "dummy witness in build")
    if m:
        g.defN("TB_BUILD_WITNESS_SIZE", g.num(m.group(1)), TB + " build(): dummy witness size used for expected_fee")
    # the order of the passes in build_transaction
    m = g.find(TB, r"self\s*\.select_outgoing\(\)\?\s*\.align_outgoing\(\)\s*\.pad_alignment_output\(\)\?\s*\.add_value\(\)\?\s*\.strip_value\(\)\s*\.deduct_fee\(\)\s*\.build\(\)", "pass order of build_transaction")
    # fee rounding: (rate * vsize).round() as u64
    g.find("src/fee_rate.rs", r"Amount::from_sat\(\(self\.0 \* vsize as f64\)\.round\(\) as u64\)", "FeeRate::fee")


SECTIONS = [builder_constants]
