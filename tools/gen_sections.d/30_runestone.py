"""Translator sections for the runestone codec (C25): tag numbers, flag bit
positions, the magic opcode, limits, the Flaw enum order, the chunk size used by
`encipher`, and the opcode numbers of rust-bitcoin that `payload` relies on.
Every regex that stops matching is a broken tie (reported by gen_constants)."""
import re, glob, os

O = "crates/ordinals/src/"


def _enum_body(g, path, name, what):
    m = g.find(path, r"enum\s+%s\s*\{(.*?)\n\}" % name, what)
    return m.group(1) if m else None


def runestone_tags(g):
    body = _enum_body(g, O + "runestone/tag.rs", "Tag", "Tag enum")
    if body is None:
        return
    found = dict((n, g.num(v)) for n, v in re.findall(r"^\s*([A-Z][A-Za-z]*)\s*=\s*([0-9_]+)\s*,", body, re.M))
    want = ["Body", "Flags", "Rune", "Premine", "Cap", "Amount", "HeightStart", "HeightEnd", "OffsetStart",
            "OffsetEnd", "Mint", "Pointer", "Cenotaph", "Divisibility", "Spacers", "Symbol", "Nop"]
    if sorted(found) != sorted(want):
        g.errors.append("runestone/tag.rs: Tag variants changed: %s" % sorted(found))
        return
    for n in want:
        g.defN("TAG_" + n, found[n], O + "runestone/tag.rs Tag::" + n)
    # the tags decipher actually takes (everything else is 'unrecognized')
    src = g.src(O + "runestone.rs")
    taken = sorted(set(re.findall(r"Tag::([A-Za-z]+)\s*\.take\(", src, re.S) + re.findall(r"Tag::([A-Za-z]+)\s*\n\s*\.take\(", src)))
    g.defListN("TAGS_TAKEN", sorted(found[t] for t in taken), O + "runestone.rs every Tag::X.take in decipher: " + " ".join(taken))


def runestone_flags(g):
    body = _enum_body(g, O + "runestone/flag.rs", "Flag", "Flag enum")
    if body is None:
        return
    found = dict((n, g.num(v)) for n, v in re.findall(r"^\s*([A-Z][A-Za-z]*)\s*=\s*([0-9_]+)\s*,", body, re.M))
    want = ["Etching", "Terms", "Turbo", "Cenotaph"]
    if sorted(found) != sorted(want):
        g.errors.append("runestone/flag.rs: Flag variants changed: %s" % sorted(found))
        return
    for n in want:
        g.defN("FLAG_" + n, found[n], O + "runestone/flag.rs Flag::%s (bit position)" % n)
    g.find(O + "runestone/flag.rs", r"fn mask\(self\) -> u128 \{\s*1 << self as u128\s*\}", "Flag::mask = 1 << position")


def runestone_flaws(g):
    body = _enum_body(g, O + "flaw.rs", "Flaw", "Flaw enum")
    if body is None:
        return
    names = re.findall(r"^\s*([A-Z][A-Za-z]*)\s*,", body, re.M)
    want = ["EdictOutput", "EdictRuneId", "InvalidScript", "Opcode", "SupplyOverflow", "TrailingIntegers",
            "TruncatedField", "UnrecognizedEvenTag", "UnrecognizedFlag", "Varint"]
    if sorted(names) != sorted(want):
        g.errors.append("flaw.rs: Flaw variants changed: %s" % names)
        return
    # wire code of a flaw = its declaration index (`flaw as u8` in the harness)
    for i, n in enumerate(names):
        g.defN("FLAW_" + n, i, O + "flaw.rs Flaw::%s (declaration index)" % n)


def _opcode(g, name):
    """value of an opcode constant of the rust-bitcoin version pinned in /repo/Cargo.lock"""
    lock = g.src("Cargo.lock")
    m = re.search(r'name = "bitcoin"\nversion = "([0-9.]+)"', lock)
    if not m:
        g.errors.append("Cargo.lock: bitcoin version not found")
        return None
    ver = m.group(1)
    cands = glob.glob(os.path.expanduser("~/.cargo/registry/src/*/bitcoin-%s/src/blockdata/opcodes.rs" % ver))
    if not cands:
        g.errors.append("rust-bitcoin %s source not found in the cargo registry" % ver)
        return None
    text = open(cands[0]).read()
    m = re.search(r"%s\s*=>\s*(0x[0-9a-fA-F]+)\s*," % name, text)
    if not m:
        g.errors.append("rust-bitcoin opcodes.rs: %s not found" % name)
        return None
    return int(m.group(1), 16)


def runestone_limits(g):
    m = g.find(O + "runestone.rs", r"pub const MAGIC_NUMBER: opcodes::Opcode = opcodes::all::(OP_[A-Z0-9_]+);", "Runestone::MAGIC_NUMBER")
    if m:
        v = _opcode(g, m.group(1))
        if v is not None:
            g.defN("MAGIC_NUMBER", v, O + "runestone.rs Runestone::MAGIC_NUMBER = %s (rust-bitcoin opcodes.rs)" % m.group(1))
    for nm in ["OP_RETURN", "OP_PUSHBYTES_75", "OP_PUSHDATA1", "OP_PUSHDATA2", "OP_PUSHDATA4"]:
        v = _opcode(g, nm)
        if v is not None:
            g.defN(nm, v, "rust-bitcoin opcodes.rs " + nm)
    m = g.find(O + "runestone.rs", r"pub const COMMIT_CONFIRMATIONS: u16 = ([0-9_]+);", "COMMIT_CONFIRMATIONS")
    if m:
        g.defN("COMMIT_CONFIRMATIONS", g.num(m.group(1)), O + "runestone.rs Runestone::COMMIT_CONFIRMATIONS")
    m = g.find(O + "etching.rs", r"pub const MAX_DIVISIBILITY: u8 = ([0-9_]+);", "MAX_DIVISIBILITY")
    if m:
        g.defN("MAX_DIVISIBILITY", g.num(m.group(1)), O + "etching.rs Etching::MAX_DIVISIBILITY")
    m = g.find(O + "etching.rs", r"pub const MAX_SPACERS: u32 = (0b[01_]+|0x[0-9a-fA-F_]+|[0-9_]+);", "MAX_SPACERS")
    if m:
        g.defN("MAX_SPACERS", g.num(m.group(1)), O + "etching.rs Etching::MAX_SPACERS")
    # chunk size of the data pushes in encipher
    m = g.find(O + "runestone.rs", r"payload\.chunks\(\s*(.*?)\s*\)\s*\{", "encipher chunk size")
    if m:
        e = m.group(1)
        if re.fullmatch(r"u32::MAX\.try_into\(\)\.unwrap\(\)", e):
            g.defN("ENCIPHER_CHUNK", 2 ** 32 - 1, O + "runestone.rs encipher: payload.chunks(%s)" % e)
        elif re.fullmatch(r"(?:[a-z_:]*::)?MAX_SCRIPT_ELEMENT_SIZE", e):
            g.defN("ENCIPHER_CHUNK", 520, O + "runestone.rs encipher: payload.chunks(%s) (bitcoin consensus constant 520)" % e)
        else:
            g.errors.append("runestone.rs: encipher chunk size expression not understood: %s" % e)
    # the checks the model mirrors literally; a change of shape breaks the tie
    g.find(O + "rune_id.rs", r"if id\.block == 0 && id\.tx > 0 \{\s*return None;", "RuneId::new validity rule")
    g.find(O + "edict.rs", r"if output > u32::try_from\(tx\.output\.len\(\)\)\.unwrap\(\) \{\s*return None;", "Edict::from_integers output bound")
    g.find(O + "runestone.rs", r"\(u64::from\(pointer\) < u64::try_from\(transaction\.output\.len\(\)\)\.unwrap\(\)\)\.then_some\(pointer\)", "pointer bound")
    g.find(O + "runestone.rs", r"edicts\.sort_by_key\(\|edict\| edict\.id\);", "encipher sorts edicts by id (stable)")


SECTIONS = [runestone_tags, runestone_flags, runestone_flaws, runestone_limits]
