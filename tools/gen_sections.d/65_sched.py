"""Translator section for the scheduling model (C12-C14): the number of redb commit calls in the
functions whose commit sequence coq/Index/Sched.v models.  A change that adds, removes or moves a
commit on the indexing / savepoint / rollback path changes these numbers and breaks the lemmas in
coq/Properties/C13.v that tie the model's trace to them."""
import re


def fn_body(src, signature_regex):
    m = re.search(signature_regex, src)
    if not m:
        return None
    i = src.index("{", m.end() - 1)
    depth, j = 0, i
    while j < len(src):
        if src[j] == "{":
            depth += 1
        elif src[j] == "}":
            depth -= 1
            if depth == 0:
                return src[i:j + 1]
        j += 1
    return None


def count_commits(body):
    # strip the guarded crash-point lines, then count `.commit()` calls
    body = re.sub(r"#\[cfg\(ordinals_ord_verif\)\]\s*\n[^\n]*\n", "", body)
    return len(re.findall(r"\.commit\(\)", body))


def sched_commit_calls(g):
    upd = g.src("src/index/updater.rs")
    reorg = g.src("src/index/reorg.rs")
    for name, src, sig, path in (
        ("SCHED_COMMITS_IN_UPDATER_COMMIT", upd, r"fn commit\(\s*&mut self,", "src/index/updater.rs Updater::commit"),
        ("SCHED_COMMITS_IN_UPDATE_SAVEPOINTS", reorg, r"fn update_savepoints\(", "src/index/reorg.rs Reorg::update_savepoints"),
        ("SCHED_COMMITS_IN_HANDLE_REORG", reorg, r"fn handle_reorg\(", "src/index/reorg.rs Reorg::handle_reorg"),
    ):
        body = fn_body(src, sig)
        if body is None:
            g.errors.append("%s: function body for %s not found" % (path, name))
            continue
        g.defN(name, count_commits(body), path + ": number of `.commit()` calls in the function body")


SECTIONS = [sched_commit_calls]
