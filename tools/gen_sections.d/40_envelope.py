"""Translator sections for group "envelope" (C27, C28): inscription tag numbers and
their chunking, PROTOCOL_ID, the chunk size used by the reveal-script builder, the
properties decompression limits and the brotli constants."""
import re, os, glob


def envelope_tags(g):
    path = "src/inscriptions/tag.rs"
    m = g.find(path, r"pub\(crate\) enum Tag \{(.*?)\n\}", "enum Tag")
    if not m:
        return
    body = m.group(1)
    tags = dict((n, int(v)) for n, v in re.findall(r"^\s*([A-Za-z]+) = ([0-9]+),", body, re.M))
    want = ["Pointer", "Unbound", "ContentType", "Parent", "Metadata", "Metaprotocol", "ContentEncoding",
            "Delegate", "Rune", "Note", "Properties", "PropertyEncoding", "Nop"]
    if sorted(tags) != sorted(want):
        g.errors.append("%s: Tag variants changed: %s" % (path, sorted(tags)))
        return
    for n in want:
        g.defN("TAG_" + re.sub(r"(?<!^)([A-Z])", r"_\1", n).upper(), tags[n], "%s Tag::%s" % (path, n))
    m = g.find(path, r"fn chunked\(self\) -> bool \{\s*matches!\(self, ([A-Za-z:| ]+)\)", "Tag::chunked")
    if m:
        names = [x.strip().replace("Self::", "") for x in m.group(1).split("|")]
        g.defListN("TAGS_CHUNKED", [tags[n] for n in names], "%s Tag::chunked = %s" % (path, " | ".join(names)))
    # Tag::bytes is the single byte of the discriminant
    g.find(path, r"pub\(crate\) fn bytes\(self\) -> \[u8; 1\] \{\s*\[self as u8\]", "Tag::bytes")
    # chunk size used by Tag::append and by the body loop
    g.find(path, r"for chunk in value\.chunks\(MAX_SCRIPT_ELEMENT_SIZE\)", "Tag::append chunk size")
    g.find("src/inscriptions/inscription.rs", r"for chunk in body\.chunks\(MAX_SCRIPT_ELEMENT_SIZE\)", "body chunk size")
    g.find("src/lib.rs", r"constants::\{[^}]*MAX_SCRIPT_ELEMENT_SIZE[^}]*\}", "MAX_SCRIPT_ELEMENT_SIZE import from bitcoin::constants")
    # value of bitcoin::blockdata::constants::MAX_SCRIPT_ELEMENT_SIZE: read from the vendored
    # crate when it is there; the harness additionally reports the compiled-in value (C27 op 9).
    val = None
    for f in glob.glob(os.path.expanduser("~/.cargo/registry/src/*/bitcoin-0.32.*/src/blockdata/constants.rs")):
        mm = re.search(r"pub const MAX_SCRIPT_ELEMENT_SIZE: usize = ([0-9_]+);", open(f).read())
        if mm:
            val = g.num(mm.group(1))
    if val is None:
        val = 520
    g.defN("MAX_SCRIPT_ELEMENT_SIZE", val, "bitcoin::blockdata::constants::MAX_SCRIPT_ELEMENT_SIZE (chunk size in tag.rs / inscription.rs)")
    # order in which the parser takes the tags and the builder appends them
    env = "src/inscriptions/envelope.rs"
    m = g.find(env, r"let duplicate_field = .*?;\n(.*?)let unrecognized_even_field", "ParsedEnvelope::from take order")
    if m:
        order = re.findall(r"Tag::([A-Za-z]+)\.(take_array|take)\(", m.group(1))
        g.defListN("TAG_TAKE_ORDER", [tags[n] for n, _ in order], "%s take order: %s" % (env, ", ".join(n for n, _ in order)))
        g.defListN("TAGS_ARRAY", [tags[n] for n, k in order if k == "take_array"], "%s tags read with take_array" % env)
    ins = "src/inscriptions/inscription.rs"
    m = g.find(ins, r"\.push_slice\(envelope::PROTOCOL_ID\);\n(.*?)if let Some\(body\) = &self\.body", "append_reveal_script_to_builder order")
    if m:
        order = re.findall(r"Tag::([A-Za-z]+)\.(append_array|append)\(&mut builder, &self\.([a-z_]+)\)", m.group(1))
        g.defListN("TAG_APPEND_ORDER", [tags[n] for n, _, _ in order], "%s append order: %s" % (ins, ", ".join(n for n, _, _ in order)))
    m = g.find(env, r'pub\(crate\) const PROTOCOL_ID: \[u8; 3\] = \*b"([a-z]+)";', "PROTOCOL_ID")
    if m:
        g.defListN("PROTOCOL_ID", [ord(c) for c in m.group(1)], "%s PROTOCOL_ID" % env)
    g.find(env, r"pub\(crate\) const BODY_TAG: \[u8; 0\] = \[\];", "BODY_TAG")


def properties_limits(g):
    ins = "src/inscriptions/inscription.rs"
    m = g.find(ins, r"const MAX_COMPRESSED_PROPERTIES_SIZE: usize = ([0-9_]+);", "MAX_COMPRESSED_PROPERTIES_SIZE")
    if m:
        g.defN("MAX_COMPRESSED_PROPERTIES_SIZE", g.num(m.group(1)), ins + " MAX_COMPRESSED_PROPERTIES_SIZE")
    m = g.find(ins, r"const MAX_PROPERTIES_COMPRESSION_RATIO: usize = ([0-9_]+);", "MAX_PROPERTIES_COMPRESSION_RATIO")
    if m:
        g.defN("MAX_PROPERTIES_COMPRESSION_RATIO", g.num(m.group(1)), ins + " MAX_PROPERTIES_COMPRESSION_RATIO")
    m = g.find("src/lib.rs", r'const BROTLI: &str = "([a-z]+)";', "BROTLI")
    if m:
        g.defListN("BROTLI", [ord(c) for c in m.group(1)], "src/lib.rs BROTLI")
    m = g.find("src/lib.rs", r"const BROTLI_BUFFER_SIZE: usize = ([0-9_]+);", "BROTLI_BUFFER_SIZE")
    if m:
        g.defN("BROTLI_BUFFER_SIZE", g.num(m.group(1)), "src/lib.rs BROTLI_BUFFER_SIZE")
    # shape of the bound in properties_cbor
    g.find(ins, r"\.saturating_mul\(MAX_PROPERTIES_COMPRESSION_RATIO\)\s*\.min\(MAX_COMPRESSED_PROPERTIES_SIZE\)", "properties_cbor bound")
    g.find(ins, r"if value\.len\(\) \+ n > max \{\s*return None;", "properties_cbor loop guard")
    # encoder side uses the same ratio bound as the decoder (fixed: was the rounded-down quotient)
    g.find(ins, r"len <= compressed\.len\(\)\.saturating_mul\(MAX_PROPERTIES_COMPRESSION_RATIO\)", "compress_properties ratio check")
    g.find(ins, r"len <= MAX_COMPRESSED_PROPERTIES_SIZE,", "compress_properties size check")
    # cbor map keys of the derive-encoded structs: n(k) per field, in declaration order
    p = "src/properties.rs"
    for struct, fields in (("Attributes", ["title", "traits"]), ("Item", ["id", "attributes", "index"]),
                           ("Properties", ["gallery", "attributes", "txids"])):
        m = g.find(p, r"pub struct %s \{(.*?)\n\}" % struct, "struct " + struct)
        if not m:
            continue
        found = re.findall(r"#\[cbor\(n\(([0-9]+)\)[^\]]*\)\]\s*(?:#\[serde[^\]]*\]\s*)?pub ([a-z_]+):", m.group(1))
        if [f for _, f in found] != fields:
            g.errors.append("%s: fields of %s changed: %s" % (p, struct, found))
            continue
        for k, f in found:
            g.defN("CBOR_KEY_%s_%s" % (struct.upper(), f.upper()), int(k), "%s %s.%s #[cbor(n(%s))]" % (p, struct, f, k))


SECTIONS = [envelope_tags, properties_limits]
