"""Translator sections of group "text" (C31-C34): rune name tables, unlock-schedule
inputs, etching limits, and the sat constants used by the text parsers.
All names are prefixed RUNE_ / TXT_ so that they cannot clash with other groups."""
import re, os, glob


def _bitcoin_constants_path(g):
    """bitcoin::blockdata::constants of the version pinned in /repo/Cargo.lock"""
    m = g.find("Cargo.lock", r'name = "bitcoin"\nversion = "([0-9.]+)"', "bitcoin crate version")
    if not m:
        return None
    ver = m.group(1)
    cands = sorted(glob.glob(os.path.expanduser("~/.cargo/registry/src/*/bitcoin-%s/src/blockdata/constants.rs" % ver)))
    if not cands:
        g.errors.append("bitcoin-%s sources not found in the cargo registry" % ver)
        return None
    return cands[0]


def rune_tables(g):
    p = "crates/ordinals/src/rune.rs"
    m = g.find(p, r"const STEPS: &'static \[u128\] = &\[(.*?)\];", "Rune::STEPS")
    if m:
        vals = [g.num(x) for x in m.group(1).split(",") if x.strip()]
        g.defListN("RUNE_STEPS", vals, p + " Rune::STEPS")
    m = g.find(p, r"pub const RESERVED: u128 = ([0-9_]+);", "Rune::RESERVED")
    if m:
        g.defN("RUNE_RESERVED", g.num(m.group(1)), p + " Rune::RESERVED")
    m = g.find(p, r"const UNLOCKED: usize = ([0-9_]+);", "Rune::UNLOCKED")
    if m:
        g.defN("RUNE_UNLOCKED", g.num(m.group(1)), p + " Rune::UNLOCKED")
    m = g.find(p, r"const UNLOCK_INTERVAL: u32 = SUBSIDY_HALVING_INTERVAL / ([0-9_]+);", "Rune::UNLOCK_INTERVAL")
    if m:
        g.defN("RUNE_UNLOCK_PARTS", g.num(m.group(1)), p + " Rune::UNLOCK_INTERVAL = SUBSIDY_HALVING_INTERVAL / this")
    # first_rune_height: SUBSIDY_HALVING_INTERVAL * match network { Bitcoin => 4, ... , _ => 0 }
    m = g.find(p, r"pub fn first_rune_height\(network: Network\) -> u32 \{\s*SUBSIDY_HALVING_INTERVAL\s*\*\s*match network \{(.*?)\}\s*\}",
               "Rune::first_rune_height")
    if m:
        arms = dict((a, g.num(b)) for a, b in re.findall(r"(Network::\w+|_)\s*=>\s*([0-9_]+)", m.group(1)))
        want = ["Network::Bitcoin", "Network::Regtest", "Network::Signet", "Network::Testnet", "_"]
        if sorted(arms) != sorted(want):
            g.errors.append(p + ": first_rune_height arms changed: %r" % sorted(arms))
        else:
            # wire order of networks: 0 Bitcoin, 1 Testnet, 2 Signet, 3 Regtest, 4 Testnet4 (wildcard arm)
            g.defListN("RUNE_FIRST_HEIGHT_MULT",
                       [arms["Network::Bitcoin"], arms["Network::Testnet"], arms["Network::Signet"],
                        arms["Network::Regtest"], arms["_"]],
                       p + " Rune::first_rune_height multipliers [Bitcoin; Testnet; Signet; Regtest; other(Testnet4)]")
    p = "crates/ordinals/src/etching.rs"
    m = g.find(p, r"pub const MAX_DIVISIBILITY: u8 = ([0-9_]+);", "Etching::MAX_DIVISIBILITY")
    if m:
        g.defN("RUNE_MAX_DIVISIBILITY", g.num(m.group(1)), p + " Etching::MAX_DIVISIBILITY")
    m = g.find(p, r"pub const MAX_SPACERS: u32 = (0b[01_]+);", "Etching::MAX_SPACERS")
    if m:
        g.defN("RUNE_MAX_SPACERS", g.num(m.group(1)), p + " Etching::MAX_SPACERS")


def text_sat_constants(g):
    bp = _bitcoin_constants_path(g)
    if bp:
        m = g.find(bp, r"pub const SUBSIDY_HALVING_INTERVAL: u32 = ([0-9_]+);", "bitcoin SUBSIDY_HALVING_INTERVAL")
        if m:
            g.defN("TXT_SUBSIDY_HALVING_INTERVAL", g.num(m.group(1)), "bitcoin crate (version of /repo/Cargo.lock) blockdata/constants.rs")
        m = g.find(bp, r"pub const DIFFCHANGE_INTERVAL: u32 = ([0-9_]+);", "bitcoin DIFFCHANGE_INTERVAL")
        if m:
            g.defN("TXT_DIFFCHANGE_INTERVAL", g.num(m.group(1)), "bitcoin crate (version of /repo/Cargo.lock) blockdata/constants.rs")
    p = "crates/ordinals/src/sat.rs"
    m = g.find(p, r"pub const SUPPLY: u64 = ([0-9_]+);", "Sat::SUPPLY")
    if m:
        g.defN("TXT_SAT_SUPPLY", g.num(m.group(1)), p + " Sat::SUPPLY")
    p = "crates/ordinals/src/epoch.rs"
    m = g.find(p, r"pub const STARTING_SATS: \[Sat; (\d+)\] = \[(.*?)\];", "Epoch::STARTING_SATS")
    if m:
        body = m.group(2)
        items = [x.strip() for x in body.split(",") if x.strip()]
        vals = []
        for it in items:
            mm = re.match(r"Sat\(([0-9_]+)\)$", it)
            if mm:
                vals.append(g.num(mm.group(1)))
            elif it == "Sat(Sat::SUPPLY)":
                ms = re.search(r"pub const SUPPLY: u64 = ([0-9_]+);", g.src("crates/ordinals/src/sat.rs"))
                vals.append(g.num(ms.group(1)))
            else:
                g.errors.append(p + ": unexpected STARTING_SATS item %r" % it)
        if len(vals) != int(m.group(1)):
            g.errors.append(p + ": STARTING_SATS length mismatch")
        g.defListN("TXT_EPOCH_STARTING_SATS", vals, p + " Epoch::STARTING_SATS")
    m = g.find(p, r"pub const FIRST_POST_SUBSIDY: Epoch = Self\(([0-9_]+)\);", "Epoch::FIRST_POST_SUBSIDY")
    if m:
        g.defN("TXT_FIRST_POST_SUBSIDY", g.num(m.group(1)), p + " Epoch::FIRST_POST_SUBSIDY")


SECTIONS = [rune_tables, text_sat_constants]
