"""Translator section of group satsidx (C01 C02 C17): subsidy / halving constants
the sat-index model depends on.  Names are prefixed SI_ so that they cannot
collide with another group's definitions in Generated.v."""
import re, glob, os


def satsidx_constants(g):
    m = g.find("crates/ordinals/src/epoch.rs",
               r"pub const STARTING_SATS: \[Sat; (\d+)\] = \[(.*?)\];", "Epoch::STARTING_SATS")
    if m:
        n = int(m.group(1))
        body = m.group(2)
        sup = g.find("crates/ordinals/src/sat.rs", r"pub const SUPPLY: u64 = ([0-9_]+);", "Sat::SUPPLY")
        vals = []
        for tok in re.findall(r"Sat\(([^)]*)\)", body):
            tok = tok.strip()
            if tok == "Sat::SUPPLY":
                vals.append(g.num(sup.group(1)) if sup else 0)
            else:
                vals.append(g.num(tok))
        if len(vals) != n:
            g.errors.append("crates/ordinals/src/epoch.rs: STARTING_SATS has %d entries, declared %d" % (len(vals), n))
        g.defListN("SI_EPOCH_STARTING_SATS", vals, "crates/ordinals/src/epoch.rs Epoch::STARTING_SATS")
        if sup:
            g.defN("SI_SUPPLY", g.num(sup.group(1)), "crates/ordinals/src/sat.rs Sat::SUPPLY")
    m = g.find("crates/ordinals/src/epoch.rs",
               r"pub const FIRST_POST_SUBSIDY: Epoch = Self\((\d+)\);", "Epoch::FIRST_POST_SUBSIDY")
    if m:
        g.defN("SI_FIRST_POST_SUBSIDY", g.num(m.group(1)), "crates/ordinals/src/epoch.rs Epoch::FIRST_POST_SUBSIDY")
    m = g.find("crates/ordinals/src/epoch.rs",
               r"pub fn subsidy\(self\) -> u64 \{\s*if self < Self::FIRST_POST_SUBSIDY \{\s*\((\d+) \* COIN_VALUE\) >> self\.0\s*\} else \{\s*0\s*\}",
               "Epoch::subsidy shape ((K * COIN_VALUE) >> epoch, 0 from FIRST_POST_SUBSIDY)")
    if m:
        g.defN("SI_INITIAL_SUBSIDY_COINS", g.num(m.group(1)), "crates/ordinals/src/epoch.rs Epoch::subsidy")
    m = g.find("crates/ordinals/src/lib.rs", r"pub const COIN_VALUE: u64 = ([0-9_]+);", "COIN_VALUE")
    if m:
        g.defN("SI_COIN_VALUE", g.num(m.group(1)), "crates/ordinals/src/lib.rs COIN_VALUE")
    # SUBSIDY_HALVING_INTERVAL comes from rust-bitcoin (re-exported by crates/ordinals/src/lib.rs)
    g.find("crates/ordinals/src/lib.rs", r"constants::\{[^}]*SUBSIDY_HALVING_INTERVAL[^}]*\}",
           "use of bitcoin::constants::SUBSIDY_HALVING_INTERVAL")
    val = None
    home = os.environ.get("CARGO_HOME", os.path.expanduser("~/.cargo"))
    for p in sorted(glob.glob(os.path.join(home, "registry", "src", "*", "bitcoin-0.32*", "src", "blockdata", "constants.rs"))):
        mm = re.search(r"pub const SUBSIDY_HALVING_INTERVAL: u32 = ([0-9_]+);", open(p).read())
        if mm:
            val = g.num(mm.group(1))
    if val is None:
        g.errors.append("rust-bitcoin constants.rs: SUBSIDY_HALVING_INTERVAL not found")
    else:
        g.defN("SI_HALVING_INTERVAL", val, "rust-bitcoin blockdata/constants.rs SUBSIDY_HALVING_INTERVAL")
    # the shape of Sat::common's fast path (epoch 10 start, epoch 9 subsidy)
    m = g.find("crates/ordinals/src/sat.rs",
               r"if self < Epoch\((\d+)\)\.starting_sat\(\) && !self\.0\.is_multiple_of\(Epoch\((\d+)\)\.subsidy\(\)\)",
               "Sat::common fast path")
    if m:
        g.defN("SI_COMMON_FAST_EPOCH", g.num(m.group(1)), "crates/ordinals/src/sat.rs Sat::common fast path: epoch bound")
        g.defN("SI_COMMON_FAST_DIV_EPOCH", g.num(m.group(2)), "crates/ordinals/src/sat.rs Sat::common fast path: divisor epoch")
    # the BIP's constants
    m = g.find("bip.mediawiki", r"return (\d+) \* ([0-9_]+) >> height // ([0-9_]+)", "bip.mediawiki subsidy()")
    if m:
        g.defN("SI_BIP_SUBSIDY_COINS", g.num(m.group(1)), "bip.mediawiki subsidy(): coins")
        g.defN("SI_BIP_COIN", g.num(m.group(2)), "bip.mediawiki subsidy(): sats per coin")
        g.defN("SI_BIP_HALVING", g.num(m.group(3)), "bip.mediawiki subsidy(): halving interval")
    # Statistic::LostSats key
    m = g.find("src/index.rs", r"LostSats = (\d+),", "Statistic::LostSats")
    if m:
        g.defN("SI_STAT_LOST_SATS", g.num(m.group(1)), "src/index.rs Statistic::LostSats")


SECTIONS = [satsidx_constants]
