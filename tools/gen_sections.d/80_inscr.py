"""Constants of the inscription indexer model (coq/Index/Inscr.v): charm bit numbers,
jubilee / first-inscription heights per chain, halving interval."""
import re, glob, os


def charms(g):
    m = g.find("crates/ordinals/src/charm.rs", r"pub enum Charm \{(.*?)\n\}", "enum Charm")
    if not m:
        return
    seen = {}
    for name, val in re.findall(r"^\s*([A-Za-z]+)\s*=\s*([0-9]+),", m.group(1), re.M):
        seen[name] = int(val)
    for name in ("Cursed", "Lost", "Reinscription", "Unbound", "Vindicated", "Burned"):
        if name not in seen:
            g.errors.append("crates/ordinals/src/charm.rs: Charm::%s not found" % name)
        else:
            g.defN("CHARM_" + name.upper(), seen[name], "crates/ordinals/src/charm.rs Charm::%s" % name)
    # flag = 1 << bit
    if not g.find("crates/ordinals/src/charm.rs", r"pub fn flag\(self\) -> u16 \{\s*1 << self as u16\s*\}", "Charm::flag"):
        return
    # bits that come from Sat::charms (masked out of the observation)
    g.defListN("CHARM_ALL_BITS", sorted(seen.values()), "crates/ordinals/src/charm.rs all Charm discriminants")


def chain_heights(g):
    for fn, prefix in (("jubilee_height", "JUBILEE"), ("first_inscription_height", "FIRST_INSCRIPTION")):
        m = g.find("src/chain.rs", r"fn %s\(self\) -> u32 \{\s*match self \{(.*?)\}" % fn, "Chain::" + fn)
        if not m:
            continue
        vals = dict((a, g.num(b)) for a, b in re.findall(r"Self::([A-Za-z0-9]+)\s*=>\s*([0-9_]+)", m.group(1)))
        for chain in ("Regtest", "Testnet4", "Mainnet", "Signet"):
            if chain not in vals:
                g.errors.append("src/chain.rs: %s for %s not found" % (fn, chain))
            else:
                g.defN("%s_%s" % (prefix, chain.upper()), vals[chain], "src/chain.rs Chain::%s %s" % (fn, chain))


def halving(g):
    # the constant lives in rust-bitcoin; ordinals re-exports it
    if not g.find("crates/ordinals/src/lib.rs", r"constants::\{[^}]*SUBSIDY_HALVING_INTERVAL", "use of bitcoin SUBSIDY_HALVING_INTERVAL"):
        return
    val = None
    home = os.path.expanduser("~")
    for f in sorted(glob.glob(os.path.join(home, ".cargo/registry/src/*/bitcoin-0.32*/src/blockdata/constants.rs"))):
        m = re.search(r"pub const SUBSIDY_HALVING_INTERVAL: u32 = ([0-9_]+);", open(f).read())
        if m:
            val = g.num(m.group(1))
    if val is None:
        g.errors.append("rust-bitcoin SUBSIDY_HALVING_INTERVAL not found in the cargo registry")
        return
    g.defN("SUBSIDY_HALVING_INTERVAL", val, "rust-bitcoin blockdata/constants.rs SUBSIDY_HALVING_INTERVAL")
    if not g.find("crates/ordinals/src/epoch.rs", r"\(50 \* COIN_VALUE\) >> self\.0", "Epoch::subsidy formula"):
        return
    if not g.find("crates/ordinals/src/epoch.rs", r"FIRST_POST_SUBSIDY: Epoch = Self\(33\)", "Epoch::FIRST_POST_SUBSIDY"):
        return


SECTIONS = [charms, chain_heights, halving]
