"""Extraction sections of the translator.  Each function reads Rust source
through g.find / g.src and registers Coq definitions through g.defN / g.defListN."""
import re


def ordinals_basics(g):
    m = g.find("crates/ordinals/src/lib.rs", r"pub const COIN_VALUE: u64 = ([0-9_]+);", "COIN_VALUE")
    if m:
        g.defN("COIN_VALUE", g.num(m.group(1)), "crates/ordinals/src/lib.rs COIN_VALUE")
    m = g.find("crates/ordinals/src/lib.rs", r"pub const CYCLE_EPOCHS: u32 = ([0-9_]+);", "CYCLE_EPOCHS")
    if m:
        g.defN("CYCLE_EPOCHS", g.num(m.group(1)), "crates/ordinals/src/lib.rs CYCLE_EPOCHS")


SECTIONS = [ordinals_basics]
