#!/bin/sh
# Development aid: confirm a seeded change in a scratch worktree of /repo:
#   applies cleanly, compiles, the crate's unit tests still pass, its demonstration fails with the
#   change and passes without.  Usage: tools/confirm_seeded.sh <seeded-id> <demo-kind>
#   demo-kind "sched": integration test target sched_demo.rs with filter from meta (see RUN.md)
set -u
cd /verif
id="$1"
d=/verif/seeded/$id
wt=/tmp/confirm-wt
if [ ! -d $wt ]; then
  git -C /repo worktree add -q $wt HEAD
  cp -r --reflink=auto /repo/target $wt/target
fi
cd $wt
git checkout -q -- . ; git clean -qfd -e target
out=$d/confirm.txt
: > $out
echo "## confirm $id at $(date -u +%FT%TZ), /repo HEAD $(git -C /repo rev-parse --short HEAD)" >> $out
if git apply --check $d/patch.diff 2>>$out; then echo "patch applies cleanly" >> $out; else echo "PATCH DOES NOT APPLY" >> $out; exit 1; fi
git apply $d/patch.diff
echo "## cargo test --offline -p ord --lib (with the change)" >> $out
nice -n 5 cargo test --offline -p ord --lib 2>&1 | grep -E "^test result|error(\[|:)|FAILED|panicked" | head -20 >> $out
echo "## cargo test --offline -p ordinals (with the change)" >> $out
nice -n 5 cargo test --offline -p ordinals 2>&1 | grep -E "^test result|error(\[|:)|FAILED" | head -10 >> $out
if [ -f $d/run_demo.sh ]; then
  echo "## demonstration WITH the change" >> $out
  sh $d/run_demo.sh $wt 2>&1 | tail -15 >> $out
  git checkout -q -- . ; git clean -qfd -e target
  echo "## demonstration WITHOUT the change" >> $out
  sh $d/run_demo.sh $wt 2>&1 | tail -8 >> $out
fi
git checkout -q -- . ; git clean -qfd -e target
tail -30 $out
