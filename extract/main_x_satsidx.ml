module M = X_satsidx
module D = Driver.Make (struct
  type positive = M.positive
  type z = M.z
  let xI p = M.XI p
  let xO p = M.XO p
  let xH = M.XH
  let z0 = M.Z0
  let zpos p = M.Zpos p
  let zneg p = M.Zneg p
  let case_pos = function M.XI q -> `I q | M.XO q -> `O q | M.XH -> `H
  let case_z = function M.Z0 -> `Z0 | M.Zpos p -> `Pos p | M.Zneg p -> `Neg p
end)
let () = D.main [ ("C01", M.run_C01); ("C02", M.run_C02); ("C17", M.run_C17) ]
