module M = X_envelope
module D = Driver.Make (struct
  type positive = M.positive
  type z = M.z
  let xI p = M.XI p
  let xO p = M.XO p
  let xH = M.XH
  let z0 = M.Z0
  let zpos p = M.Zpos p
  let zneg p = M.Zneg p
  let case_pos = function M.XI q -> `I q | M.XO q -> `O q | M.XH -> `H
  let case_z = function M.Z0 -> `Z0 | M.Zpos p -> `Pos p | M.Zneg p -> `Neg p
end)
let table = [ ("C27", M.run_C27); ("C28", M.run_C28) ]

(* The extracted functions are not tail recursive and some cases hold byte strings of
   more than 100 000 elements: re-execute once under a larger stack limit (the limit is
   inherited from the shell; stdin/stdout are passed through). *)
let () =
  match Sys.getenv_opt "X_ENVELOPE_STACK" with
  | Some _ -> D.main table
  | None ->
    let args = String.concat " " (List.map Filename.quote (List.tl (Array.to_list Sys.argv))) in
    let cmd = Printf.sprintf
      "ulimit -s unlimited 2>/dev/null || ulimit -s 4000000 2>/dev/null; X_ENVELOPE_STACK=1 exec %s %s"
      (Filename.quote Sys.executable_name) args in
    exit (Sys.command cmd)
