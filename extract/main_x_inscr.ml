module M = X_inscr
module D = Driver.Make (struct
  type positive = M.positive
  type z = M.z
  let xI p = M.XI p
  let xO p = M.XO p
  let xH = M.XH
  let z0 = M.Z0
  let zpos p = M.Zpos p
  let zneg p = M.Zneg p
  let case_pos = function M.XI q -> `I q | M.XO q -> `O q | M.XH -> `H
  let case_z = function M.Z0 -> `Z0 | M.Zpos p -> `Pos p | M.Zneg p -> `Neg p
end)
let () = D.main [ ("C03", M.run_inscr_ev); ("C04", M.run_inscr_ev); ("C05", M.run_inscr_ev); ("C06", M.run_inscr_ev); ("C07", M.run_inscr_ev); ("plain", M.run_inscr) ]
