#!/bin/sh
# build extracted model drivers: ./build.sh <group>   (group = x_ordinals, ...)
set -e
cd "$(dirname "$0")"
g="$1"
mkdir -p _build/$g
cp gen/$g.ml gen/$g.mli driver.ml main_$g.ml _build/$g/
cd _build/$g
ocamlfind ocamlopt -O2 -w -a -package str $g.mli $g.ml driver.ml main_$g.ml -o ../$g.exe 2>/dev/null || \
ocamlfind ocamlopt -w -a $g.mli $g.ml driver.ml main_$g.ml -o ../$g.exe
