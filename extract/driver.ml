(* Generic line-protocol driver for extracted models.
   usage: <exe> <entry>   reads cases from stdin, one per line, space-separated
   hex integers (optional leading '-'); prints the model's output list in the
   same format, one line per case.
   The numeric datatypes are Coq's extracted positive/N/Z (no OCaml int for data).
   This file is functorised over the extracted module's constructors via the
   small signature below, instantiated by each main_<group>.ml. *)

module type NUM = sig
  type positive
  type z
  val xI : positive -> positive
  val xO : positive -> positive
  val xH : positive
  val z0 : z
  val zpos : positive -> z
  val zneg : positive -> z
  (* destructors *)
  val case_pos : positive -> [ `I of positive | `O of positive | `H ]
  val case_z : z -> [ `Z0 | `Pos of positive | `Neg of positive ]
end

module Make (X : NUM) = struct
  let hexval c =
    match c with
    | '0' .. '9' -> Char.code c - 48
    | 'a' .. 'f' -> Char.code c - 87
    | 'A' .. 'F' -> Char.code c - 55
    | _ -> failwith "bad hex digit"

  (* bits most-significant first -> positive *)
  let pos_of_hex (s : string) (start : int) : X.positive option =
    let p = ref None in
    for i = start to String.length s - 1 do
      let d = hexval s.[i] in
      for b = 3 downto 0 do
        let bit = (d lsr b) land 1 = 1 in
        match !p with
        | None -> if bit then p := Some X.xH
        | Some q -> p := Some (if bit then X.xI q else X.xO q)
      done
    done;
    !p

  let z_of_token (s : string) : X.z =
    let neg = String.length s > 0 && s.[0] = '-' in
    let start = if neg then 1 else 0 in
    match pos_of_hex s start with
    | None -> X.z0
    | Some p -> if neg then X.zneg p else X.zpos p

  let hex_of_pos (p : X.positive) : string =
    (* collect bits least-significant first *)
    let bits = ref [] in
    let rec go p =
      match X.case_pos p with
      | `H -> bits := true :: !bits
      | `O q -> bits := false :: !bits; go q
      | `I q -> bits := true :: !bits; go q
    in
    (* go pushes lsb first so the final list is msb first *)
    go p;
    let msb_first = !bits in
    let n = List.length msb_first in
    let pad = (4 - (n mod 4)) mod 4 in
    let all = List.init pad (fun _ -> false) @ msb_first in
    let buf = Buffer.create 16 in
    let rec emit l =
      match l with
      | a :: b :: c :: d :: r ->
        let v = (if a then 8 else 0) + (if b then 4 else 0) + (if c then 2 else 0) + (if d then 1 else 0) in
        Buffer.add_char buf "0123456789abcdef".[v];
        emit r
      | [] -> ()
      | _ -> assert false
    in
    emit all;
    Buffer.contents buf

  let token_of_z (z : X.z) : string =
    match X.case_z z with
    | `Z0 -> "0"
    | `Pos p -> hex_of_pos p
    | `Neg p -> "-" ^ hex_of_pos p

  let split_ws (s : string) : string list =
    List.filter (fun t -> t <> "") (String.split_on_char ' ' (String.trim s))

  let main (table : (string * (X.z list -> X.z list)) list) =
    let entry = Sys.argv.(1) in
    let f =
      try List.assoc entry table
      with Not_found -> prerr_endline ("unknown entry " ^ entry); exit 2
    in
    let out = Buffer.create 65536 in
    (try
       while true do
         let line = input_line stdin in
         let inp = List.map z_of_token (split_ws line) in
         let res = f inp in
         Buffer.add_string out (String.concat " " (List.map token_of_z res));
         Buffer.add_char out '\n';
         if Buffer.length out > 60000 then (print_string (Buffer.contents out); Buffer.clear out)
       done
     with End_of_file -> ());
    print_string (Buffer.contents out)
end
